"""Shared machinery for the property checks: outcomes, evidence counters,
Hypothesis driving, shrinking, replay files, known findings.

A property module (props/cNN.py) defines ``run(ctx)`` and calls
``ctx.explore(part, strategy, execute, n=...)`` (generated search) and/or
``ctx.enumerate(part, cases, execute)`` (finite enumeration).  ``execute(case)``
takes a JSON-serialisable case and returns an ``Outcome``.
"""
import hashlib
import json
import os
import sys
import time
import traceback

VERIF = os.path.dirname(os.path.dirname(os.path.abspath(__file__)))


class HarnessError(Exception):
    """Something is wrong with the harness itself (exit 2, never a violation)."""


class _StopExplore(Exception):
    """raised inside a Hypothesis test body to end the search early"""


class Outcome:
    __slots__ = ('signature', 'detail', 'nontrivial', 'labels', 'inconclusive')

    def __init__(self, signature=None, detail=None, nontrivial=False,
                 labels=(), inconclusive=False):
        self.signature = signature
        self.detail = detail
        self.nontrivial = nontrivial
        self.labels = tuple(labels)
        self.inconclusive = inconclusive

    @property
    def violated(self):
        return self.signature is not None


def ok(nontrivial=False, labels=()):
    return Outcome(None, None, nontrivial, labels)


def bad(signature, detail='', nontrivial=True, labels=()):
    return Outcome(signature, detail, nontrivial, labels)


def inconclusive(reason, labels=()):
    return Outcome(None, reason, False, tuple(labels) + ('inconclusive',), True)


def canon(case):
    return json.dumps(case, sort_keys=True, separators=(',', ':'),
                      default=_json_default)


def _json_default(o):
    if isinstance(o, (bytes, bytearray)):
        return {'__bytes__': bytes(o).hex()}
    if isinstance(o, (set, frozenset)):
        return sorted(o)
    if isinstance(o, tuple):
        return list(o)
    raise TypeError('case not JSON-serialisable: %r' % (type(o),))


def case_hash(case):
    return hashlib.blake2b(canon(case).encode(), digest_size=8).hexdigest()


def derive_seed(*parts):
    h = hashlib.blake2b('/'.join(str(p) for p in parts).encode(),
                        digest_size=4).hexdigest()
    return int(h, 16)


def _shorten(obj, limit=1500):
    s = canon(obj)
    if len(s) <= limit:
        return json.loads(s)
    return {'__truncated_case__': s[:limit] + '...', 'chars': len(s)}


# ---------------------------------------------------------------------------
# known findings
# ---------------------------------------------------------------------------

class Known:
    def __init__(self, path=None):
        path = path or os.path.join(VERIF, 'known_findings.json')
        try:
            with open(path) as f:
                self.entries = json.load(f)
        except FileNotFoundError:
            self.entries = []

    def open_for(self, prop):
        return [e for e in self.entries
                if e['property'] == prop and e.get('status') == 'open']

    def match_open(self, prop, signature):
        for e in self.open_for(prop):
            if e['signature'] == signature:
                return e
        return None


# ---------------------------------------------------------------------------
# shrinking (own ddmin; bypasses Hypothesis so it also works for real-process
# cases and is bounded by executions, not by time)
# ---------------------------------------------------------------------------

def _list_paths(case, prefix=()):
    """Paths of list values inside a dict/list case (depth-limited)."""
    out = []
    if isinstance(case, dict):
        for k in sorted(case):
            v = case[k]
            if isinstance(v, list):
                out.append(prefix + (k,))
            if isinstance(v, (dict, list)) and len(prefix) < 2:
                out.extend(_list_paths(v, prefix + (k,)))
    elif isinstance(case, list) and len(prefix) < 2:
        for i, v in enumerate(case):
            if isinstance(v, (dict, list)):
                out.extend(_list_paths(v, prefix + (i,)))
    return out


def _get(case, path):
    for p in path:
        case = case[p]
    return case


def _replaced(case, path, value):
    if not path:
        return value
    c = dict(case) if isinstance(case, dict) else list(case)
    c[path[0]] = _replaced(case[path[0]], path[1:], value)
    return c


def ddmin(case, still_fails, budget=300, extra_candidates=None):
    """Greedy delta debugging over every list inside ``case``; then
    per-property ``extra_candidates(case)`` simplifications.  ``still_fails``
    is called at most ``budget`` times."""
    calls = [0]

    def test(c):
        if calls[0] >= budget:
            return False
        calls[0] += 1
        try:
            return still_fails(c)
        except Exception:
            return False

    progress = True
    while progress and calls[0] < budget:
        progress = False
        for path in _list_paths(case):
            try:
                lst = _get(case, path)
            except (KeyError, IndexError, TypeError):
                continue
            if not isinstance(lst, list):
                continue
            n = 2
            while len(lst) >= 1 and calls[0] < budget:
                chunk = max(1, len(lst) // n)
                removed = False
                i = 0
                while i < len(lst) and calls[0] < budget:
                    cand_l = lst[:i] + lst[i + chunk:]
                    cand = _replaced(case, path, cand_l)
                    if test(cand):
                        case, lst = cand, cand_l
                        removed = progress = True
                    else:
                        i += chunk
                if chunk == 1 and not removed:
                    break
                if not removed:
                    n = min(len(lst), n * 2) or 1
                if not lst:
                    break
        if extra_candidates is not None:
            for cand in extra_candidates(case):
                if calls[0] >= budget:
                    break
                if canon(cand) != canon(case) and test(cand):
                    case = cand
                    progress = True
                    break
    return case, calls[0]


# ---------------------------------------------------------------------------
# evidence accumulator
# ---------------------------------------------------------------------------

class Part:
    def __init__(self, name):
        self.name = name
        self.evaluations = 0
        self.nontrivial_hashes = set()
        self.labels = {}
        self.samples = []
        self.inconclusive = 0
        self.exhaustive = None
        self.budget_cut = False
        self.wall = 0.0

    def record(self, case, out):
        self.evaluations += 1
        if out.inconclusive:
            self.inconclusive += 1
        for lb in out.labels:
            self.labels[lb] = self.labels.get(lb, 0) + 1
        if out.nontrivial:
            h = case_hash(case)
            if h not in self.nontrivial_hashes:
                self.nontrivial_hashes.add(h)
                if len(self.samples) < 2:
                    self.samples.append(_shorten(case))
        elif not self.samples and self.evaluations > 20:
            self.samples.append(_shorten(case))

    def dump(self):
        return {
            'name': self.name, 'evaluations': self.evaluations,
            'hashes': sorted(self.nontrivial_hashes), 'labels': self.labels,
            'samples': self.samples, 'inconclusive': self.inconclusive,
            'exhaustive': self.exhaustive, 'budget_cut': self.budget_cut,
            'wall': self.wall,
        }


class Ctx:
    """Per-run (per-shard) context handed to ``props.cNN.run``."""

    def __init__(self, prop, tier, seed, shard=0, nshards=1, only_part=None):
        self.prop = prop
        self.tier = tier
        self.seed = seed
        self.shard = shard
        self.nshards = nshards
        self.only_part = only_part
        self.known = Known()
        self.parts = {}
        self.violations = []     # dicts: part, signature, detail, case, replay
        self.known_hits = {}     # signature -> count
        self.known_excluded = {}  # label -> count (cases excluded by construction)
        self.rule = ''
        self.assumptions = []
        self.notes = {}
        self.t0 = time.time()

    # -- helpers for property modules ------------------------------------
    def pick(self, quick, thorough):
        return quick if self.tier == 'quick' else thorough

    def part(self, name):
        if name not in self.parts:
            self.parts[name] = Part(name)
        return self.parts[name]

    def wants(self, part):
        return self.only_part is None or self.only_part == part

    def excluded(self, label, n=1):
        self.known_excluded[label] = self.known_excluded.get(label, 0) + n

    def _handle(self, part, case, out, execute, shrink_budget, extra_candidates,
                reexecute_confirm=0):
        """Account one executed case; returns True when the search must stop."""
        p = self.part(part)
        p.record(case, out)
        if not out.violated:
            return False
        if self.known.match_open(self.prop, out.signature):
            self.known_hits[out.signature] = \
                self.known_hits.get(out.signature, 0) + 1
            return False
        # confirm (real-process parts ask for N re-executions that must all fail;
        # hangs are diagnosed from stack dumps instead, never re-rolled)
        if 'hangs' in out.signature or 'host-killed' in out.signature:
            reexecute_confirm = 0
        for _ in range(reexecute_confirm):
            again = execute(case)
            if not again.violated:
                p.labels['unconfirmed_failure'] = \
                    p.labels.get('unconfirmed_failure', 0) + 1
                return False
        sig = out.signature
        small, calls = case, 0
        if 'hangs' in sig:
            shrink_budget = 0      # every re-execution would wait out the watchdog
        if shrink_budget:
            def still(c):
                o = execute(c)
                return o.violated and o.signature == sig
            small, calls = ddmin(case, still, shrink_budget, extra_candidates)
            if calls:
                o2 = execute(small)
                if o2.violated and o2.signature == sig:
                    out = o2
                else:
                    small = case
        self.add_violation(part, sig, out.detail, small, shrink_calls=calls)
        return True

    def add_violation(self, part, signature, detail, case, shrink_calls=0):
        rdir = os.environ.get('VERIF_REPLAY_DIR') or os.path.join(VERIF, 'replays')
        os.makedirs(rdir, exist_ok=True)
        body = {'property': self.prop, 'part': part, 'signature': signature,
                'detail': detail, 'case': json.loads(canon(case)),
                'seed': self.seed, 'tier': self.tier,
                'shrink_executions': shrink_calls}
        h = hashlib.blake2b(canon(body['case']).encode() + signature.encode(),
                            digest_size=4).hexdigest()
        path = os.path.join(rdir, '%s-%s.json' % (self.prop, h))
        with open(path, 'w') as f:
            json.dump(body, f, indent=1, sort_keys=True)
        body['replay'] = path
        self.violations.append(body)

    # -- generated search -----------------------------------------------
    def explore(self, part, strategy, execute, n, shrink_budget=300,
                extra_candidates=None, time_cap=None, reexecute_confirm=0,
                hypothesis_shrink=False):
        """Drive ``execute`` with ``n`` Hypothesis-generated cases (per shard).

        Stops executing (remaining examples are skipped, cheaply) at the first
        violation that is not an open known finding, or when ``time_cap``
        seconds have passed (recorded as budget_cut; never a violation)."""
        if not self.wants(part):
            return
        import hypothesis
        from hypothesis import HealthCheck, Phase, given, settings
        p = self.part(part)
        t0 = time.time()
        state = {'stop': False, 'drawn': 0}
        skip_minimal = self.shard > 0 and self.nshards > 1

        def body(case):
            # once the search has to stop, leave Hypothesis at once (drawing the
            # remaining examples can cost more than executing them)
            if state['stop']:
                raise _StopExplore()
            state['drawn'] += 1
            if skip_minimal and state['drawn'] == 1:
                return      # Hypothesis' first example is the all-minimal one:
                            # only shard 0 spends an execution on it
            if time_cap is not None and time.time() - t0 > time_cap:
                p.budget_cut = True
                state['stop'] = True
                raise _StopExplore()
            out = execute(case)
            if self._handle(part, case, out, execute, shrink_budget,
                            extra_candidates, reexecute_confirm):
                state['stop'] = True
                raise _StopExplore()

        sd = derive_seed(self.seed, self.prop, part, self.shard)
        phases = [Phase.generate]
        test = settings(
            max_examples=n + (1 if skip_minimal else 0), database=None, deadline=None, phases=phases,
            derandomize=False, report_multiple_bugs=False,
            suppress_health_check=list(HealthCheck),
            verbosity=hypothesis.Verbosity.quiet,
        )(hypothesis.seed(sd)(given(strategy)(body)))
        try:
            test()
        except _StopExplore:
            pass
        except hypothesis.errors.HypothesisException as exc:
            raise HarnessError('hypothesis: %r in part %s' % (exc, part))
        p.wall += time.time() - t0

    # -- finite enumeration -----------------------------------------------
    def enumerate(self, part, cases, execute, shrink_budget=0, time_cap=None,
                  complete_is_exhaustive=True):
        """Run every case of an iterable (sharded round-robin)."""
        if not self.wants(part):
            return
        p = self.part(part)
        t0 = time.time()
        completed = True
        for idx, case in enumerate(cases):
            if idx % self.nshards != self.shard:
                continue
            if time_cap is not None and time.time() - t0 > time_cap:
                p.budget_cut = True
                completed = False
                break
            out = execute(case)
            if self._handle(part, case, out, execute, shrink_budget, None):
                completed = False
                break
        if complete_is_exhaustive:
            p.exhaustive = completed if p.exhaustive in (None, True) else False
        p.wall += time.time() - t0

    # -- replay of committed regressions / known findings -------------------
    def dump(self):
        return {
            'prop': self.prop, 'shard': self.shard,
            'parts': [p.dump() for p in self.parts.values()],
            'violations': self.violations, 'known_hits': self.known_hits,
            'known_excluded': self.known_excluded, 'rule': self.rule,
            'assumptions': self.assumptions, 'notes': self.notes,
        }


def format_exc():
    return traceback.format_exc()
