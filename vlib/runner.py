"""./check <ID> [--tier quick|thorough] [--seed N] [--replay PATH] [--part P]

Exit 0: property held on everything explored (open known findings tolerated,
one KNOWN-FINDING line each).  Exit 1: ``VIOLATION property=<id> replay=<path>``.
Exit 2: harness error (never reported as a violation).
"""
import argparse
import glob
import importlib
import json
import os
import subprocess
import sys
import tempfile
import time

from .core import VERIF, Ctx, HarnessError, Known, Outcome, canon, format_exc

SCHEMA = '/root/.vp/EVIDENCE.schema.json'


def load_module(prop):
    return importlib.import_module('props.%s' % prop.lower())


def run_shard(args):
    mod = load_module(args.id)
    ctx = Ctx(args.id, args.tier, args.seed, args.shard, args.nshards,
              only_part=args.part)
    ctx.rule = getattr(mod, 'RULE', '')
    ctx.assumptions = list(getattr(mod, 'ASSUMPTIONS', []))
    mod.run(ctx)
    return ctx.dump()


def replay_file(mod, prop, path):
    with open(path) as f:
        body = json.load(f)
    if body.get('property') != prop:
        raise HarnessError('replay %s is for %s' % (path, body.get('property')))
    execute = mod.PARTS[body['part']]
    out = execute(body['case'])
    return body, out


def merge(dumps):
    parts = {}
    order = []
    violations, known_hits, known_excluded, notes = [], {}, {}, {}
    for d in dumps:
        for p in d['parts']:
            if p['name'] not in parts:
                parts[p['name']] = {
                    'name': p['name'], 'evaluations': 0, 'hashes': set(),
                    'labels': {}, 'samples': [], 'inconclusive': 0,
                    'exhaustive': None, 'budget_cut': False, 'wall': 0.0}
                order.append(p['name'])
            m = parts[p['name']]
            m['evaluations'] += p['evaluations']
            m['hashes'].update(p['hashes'])
            for k, v in p['labels'].items():
                m['labels'][k] = m['labels'].get(k, 0) + v
            if len(m['samples']) < 3:
                m['samples'].extend(p['samples'][:3 - len(m['samples'])])
            m['inconclusive'] += p['inconclusive']
            if p['exhaustive'] is not None:
                m['exhaustive'] = (p['exhaustive'] if m['exhaustive'] is None
                                   else (m['exhaustive'] and p['exhaustive']))
            m['budget_cut'] = m['budget_cut'] or p['budget_cut']
            m['wall'] = max(m['wall'], p['wall'])
        violations.extend(d['violations'])
        for k, v in d['known_hits'].items():
            known_hits[k] = known_hits.get(k, 0) + v
        for k, v in d['known_excluded'].items():
            known_excluded[k] = known_excluded.get(k, 0) + v
        for k, v in d.get('notes', {}).items():
            if isinstance(v, (int, float)) and isinstance(notes.get(k), (int, float)):
                notes[k] += v
            else:
                notes.setdefault(k, v)
    return [parts[n] for n in order], violations, known_hits, known_excluded, notes


def write_evidence(prop, mod, args, parts, violations, known_hits,
                   known_excluded, regress, notes, wall):
    evaluations = sum(p['evaluations'] for p in parts)
    distinct = sum(len(p['hashes']) for p in parts)
    samples = []
    for p in parts:
        for s in p['samples'][:2]:
            samples.append({'part': p['name'], 'case': s})
    exh = [p['exhaustive'] for p in parts if p['exhaustive'] is not None]
    # cases in which an operation was kept out of a known-finding zone by
    # construction are labelled 'excluded:<zone>' by the engines
    known_excluded = dict(known_excluded)
    for p in parts:
        for lb, n in p['labels'].items():
            if lb.startswith('excluded:'):
                k = 'cases_with_' + lb[len('excluded:'):]
                known_excluded[k] = known_excluded.get(k, 0) + n
    coverage = {
        'evaluations': evaluations,
        'distinct_nontrivial': distinct,
        'rule': getattr(mod, 'RULE', ''),
        'samples': samples[:8],
        'parts': [{
            'part': p['name'], 'evaluations': p['evaluations'],
            'distinct_nontrivial': len(p['hashes']),
            'class_histogram': dict(sorted(p['labels'].items())),
            'inconclusive': p['inconclusive'],
            'exhaustive': p['exhaustive'], 'budget_cut': p['budget_cut'],
            'wall_s': round(p['wall'], 2),
        } for p in parts],
        'regression_replays': regress,
        'known_findings_hit': known_hits,
        'excluded_by_construction': known_excluded,
        'shards': args.nshards,
    }
    if notes:
        coverage['notes'] = notes
    if exh:
        # true only if every enumerating part completed; generated parts are
        # never exhaustive and are listed separately in 'parts'
        coverage['exhaustive_parts'] = [p['name'] for p in parts
                                        if p['exhaustive']]
    ev = {
        'property_id': prop, 'tier': args.tier, 'seed': args.seed,
        'level': getattr(mod, 'LEVEL', 'exploration'),
        'coverage': coverage,
        'assumptions': list(getattr(mod, 'ASSUMPTIONS', [])),
        'wall_s': round(wall, 2),
        'violations': len(violations),
    }
    try:
        import jsonschema
        with open(SCHEMA) as f:
            jsonschema.validate(ev, json.load(f))
    except ImportError:
        c = ev['coverage']
        if not (c['evaluations'] >= 1 and c['distinct_nontrivial'] >= 2
                and c['samples'] and c['rule']):
            raise HarnessError('evidence too thin: %r' % (
                {k: c[k] for k in ('evaluations', 'distinct_nontrivial')},))
    except FileNotFoundError:
        pass
    except Exception as exc:
        if type(exc).__name__ == 'ValidationError':
            raise HarnessError('evidence does not validate: %s' % (exc.message,))
        raise
    os.makedirs(os.path.join(VERIF, 'evidence'), exist_ok=True)
    path = os.path.join(VERIF, 'evidence', '%s.json' % prop)
    with open(path, 'w') as f:
        json.dump(ev, f, indent=1, sort_keys=True)
    return path


def main(argv=None):
    ap = argparse.ArgumentParser()
    ap.add_argument('id')
    ap.add_argument('--tier', default=os.environ.get('VERIF_TIER') or 'quick',
                    choices=['quick', 'thorough'])
    ap.add_argument('--seed', type=int,
                    default=int(os.environ.get('VERIF_SEED') or 1))
    ap.add_argument('--replay')
    ap.add_argument('--part')
    ap.add_argument('--shard', type=int, default=None)
    ap.add_argument('--nshards', type=int, default=None)
    ap.add_argument('--out')
    ap.add_argument('--no-evidence', action='store_true')
    args = ap.parse_args(argv)
    args.id = args.id.upper()
    t0 = time.time()
    try:
        return _main(args, t0)
    except HarnessError as exc:
        print('HARNESS-ERROR property=%s %s' % (args.id, exc))
        return 2
    except Exception:
        print('HARNESS-ERROR property=%s unexpected exception\n%s'
              % (args.id, format_exc()))
        return 2


def _main(args, t0):
    mod = load_module(args.id)

    # ---- single replay ---------------------------------------------------
    if args.replay:
        body, out = replay_file(mod, args.id, args.replay)
        if out.violated:
            known = Known().match_open(args.id, out.signature)
            if known:
                print('KNOWN-FINDING: property=%s %s - %s'
                      % (args.id, out.signature, known['what']))
                return 0
            print('signature: %s\n%s' % (out.signature, out.detail))
            print('VIOLATION property=%s replay=%s' % (args.id, args.replay))
            return 1
        print('replay holds (%s)' % (out.detail or 'no violation'))
        return 0

    # ---- one shard (child mode) -----------------------------------------
    if args.shard is not None:
        d = run_shard(args)
        with open(args.out, 'w') as f:
            json.dump(d, f)
        return 0

    # ---- parent: regressions first, then shards --------------------------
    known = Known()
    violations = []
    regress = {'run': 0, 'held': 0, 'known_reproduced': 0,
               'known_not_reproduced': 0}
    known_hits = {}
    for path in sorted(glob.glob(os.path.join(
            VERIF, 'replays', 'regress', '%s-*.json' % args.id))):
        if args.part:
            with open(path) as f:
                if json.load(f).get('part') != args.part:
                    continue
        body, out = replay_file(mod, args.id, path)
        regress['run'] += 1
        expect = body.get('expect', 'holds')
        if out.violated:
            if known.match_open(args.id, out.signature):
                known_hits[out.signature] = known_hits.get(out.signature, 0) + 1
                regress['known_reproduced'] += 1
            else:
                violations.append({'part': body['part'],
                                   'signature': out.signature,
                                   'detail': out.detail, 'replay': path})
        else:
            if expect == 'known':
                regress['known_not_reproduced'] += 1
            else:
                regress['held'] += 1

    shards_cfg = getattr(mod, 'SHARDS', {})
    nshards = args.nshards or shards_cfg.get(args.tier) or \
        (4 if args.tier == 'quick' else 16)
    args.nshards = nshards
    dumps = []
    if not violations:
        tmpdir = tempfile.mkdtemp(prefix='verif-%s-' % args.id)
        procs = []
        try:
            for k in range(nshards):
                out = os.path.join(tmpdir, 'shard%d.json' % k)
                cmd = [sys.executable, '-m', 'vlib.runner', args.id,
                       '--tier', args.tier, '--seed', str(args.seed),
                       '--shard', str(k), '--nshards', str(nshards),
                       '--out', out]
                if args.part:
                    cmd += ['--part', args.part]
                log = open(os.path.join(tmpdir, 'shard%d.log' % k), 'w+')
                procs.append((k, out, log, subprocess.Popen(
                    cmd, stdout=log, stderr=subprocess.STDOUT, cwd=VERIF)))
            limit = getattr(mod, 'WALL_LIMIT', {}).get(
                args.tier, 900 if args.tier == 'quick' else 6 * 3600)
            for k, out, log, pr in procs:
                try:
                    rc = pr.wait(timeout=max(1, limit - (time.time() - t0)))
                except subprocess.TimeoutExpired:
                    for _, _, _, q in procs:
                        q.kill()
                    raise HarnessError('shard %d exceeded wall limit %ss'
                                       % (k, limit))
                log.seek(0)
                text = log.read()
                if rc != 0 or not os.path.exists(out):
                    raise HarnessError('shard %d failed rc=%s\n%s'
                                       % (k, rc, text[-4000:]))
                with open(out) as f:
                    dumps.append(json.load(f))
        finally:
            for _, _, log, pr in procs:
                if pr.poll() is None:
                    pr.kill()
                log.close()
            import shutil
            shutil.rmtree(tmpdir, ignore_errors=True)

    parts, v2, kh2, kex, notes = merge(dumps)
    violations.extend(v2)
    for k, v in kh2.items():
        known_hits[k] = known_hits.get(k, 0) + v

    wall = time.time() - t0
    if not args.no_evidence and not args.part:
        if not dumps:
            # violation in the regression tier: still leave a truthful record
            parts = [{'name': 'regress', 'evaluations': regress['run'],
                      'hashes': set(), 'labels': {}, 'samples': [],
                      'inconclusive': 0, 'exhaustive': None,
                      'budget_cut': False, 'wall': wall}]
        try:
            write_evidence(args.id, mod, args, parts, violations, known_hits,
                           kex, regress, notes, wall)
        except HarnessError:
            if not violations:
                raise

    for p in parts:
        print('part %-22s cases=%-7d nontrivial=%-7d %s%s' % (
            p['name'], p['evaluations'], len(p['hashes']),
            'exhaustive ' if p['exhaustive'] else '',
            'BUDGET-CUT' if p['budget_cut'] else ''))
    for e in known.open_for(args.id):
        n = known_hits.get(e['signature'], 0)
        print('KNOWN-FINDING: property=%s %s - %s (reproduced %d time(s) in '
              'this run)' % (args.id, e['signature'], e['what'], n))
    if violations:
        for v in violations:
            print('signature: %s\n%s' % (v['signature'],
                                         (v.get('detail') or '')[:3000]))
            print('VIOLATION property=%s replay=%s' % (args.id, v['replay']))
        return 1
    print('OK property=%s tier=%s seed=%d wall=%.1fs' % (
        args.id, args.tier, args.seed, wall))
    return 0


if __name__ == '__main__':
    sys.exit(main())
