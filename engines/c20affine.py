"""C20 part 'affine': referents whose behaviour depends on *which server thread*
serves the caller (RLock, Condition - ownership is per thread) used from a child
process.  The server gives every client connection a thread of its own, and a
client thread keeps one connection for as long as it holds any proxy; so a
client that acquires through a proxy and releases through the same proxy is, to
the referent, one thread - whatever else the client does with *other* proxies in
between (build them, copy them, drop them).

A case: referent type; how the child got the proxy (inherited by fork from a
module global / in its Process args); a script of client steps executed by the
child, and - differentially - on a local threading object in one thread:

    acquire | release | tmp (build another proxy in the child) |
    droptmp (release it, gc) | noise (the parent has k fresh threads make one
    manager call each and keep their connections open: the server's thread
    population changes, a server thread that had exited would not be revived) |
    notify (Condition: notify_all under the lock)

Oracle: every step gives what the local object gives (no exception where the
local object raises none, same return value); after the child has left, the
lock is free (the parent acquires it without blocking) and the referents are
disposed of when the last proxy goes.
"""
import gc
import threading

from hypothesis import strategies as st

from vlib.core import bad, inconclusive, ok

_STEPS = ['acquire', 'acquire', 'release', 'release', 'tmp', 'tmp', 'droptmp',
          'droptmp', 'noise', 'notify']

HELD = {}      # proxies a forked child inherits as module state


def cases():
    return st.fixed_dictionaries({
        'type': st.sampled_from(['RLock', 'RLock', 'Condition']),
        'via': st.sampled_from(['inherit', 'args']),
        # (a *copy of the same proxy* is not generated: proxies of one referent
        # share one entry in the thread's id set, so dropping the copy closes
        # the connection although the original lives on - inherited from
        # CPython, recorded in DESIGN as an observation)
        'tmpkind': st.sampled_from(['list', 'dict', 'RLock']),
        'steps': st.lists(st.sampled_from(_STEPS), min_size=3, max_size=14),
    })


def _normalise(steps, tname):
    """keep the script inside what a correct single-threaded client may do: never
    release more than acquired, notify only while holding, end released"""
    out, depth, tmps = [], 0, 0
    if tname == 'RLock':
        steps = [s for s in steps if s != 'notify']
    for s in steps:
        if s == 'acquire':
            if depth >= 3:
                continue
            depth += 1
        elif s == 'release':
            if depth == 0:
                continue
            depth -= 1
        elif s == 'notify':
            if depth == 0:
                continue
        elif s == 'tmp':
            if tmps >= 3:
                continue
            tmps += 1
        elif s == 'droptmp':
            if tmps == 0:
                continue
            tmps -= 1
        out.append(s)
    out += ['release'] * depth
    return out


def _local(tname):
    return threading.RLock() if tname == 'RLock' else threading.Condition()


def _do(obj, step):
    try:
        if step == 'acquire':
            return ('ret', bool(obj.acquire(True, 20)))
        if step == 'release':
            return ('ret', obj.release())
        if step == 'notify':
            return ('ret', obj.notify_all())
    except BaseException as exc:
        return ('exc', type(exc).__name__, str(exc)[:200])
    return ('ret', None)


def child_main(proxy_or_key, tmpkind, steps, conn, address, authkey):
    """runs in the forked child"""
    import billiard
    from billiard.managers import SyncManager
    try:
        billiard.current_process().authkey = authkey
        proxy = HELD[proxy_or_key] if isinstance(proxy_or_key, str) \
            else proxy_or_key
        mgr = SyncManager(address=address, authkey=authkey)
        mgr.connect()
        tmps = []
        results = []
        for s in steps:
            if s == 'tmp':
                if tmpkind == 'copy':
                    import pickle
                    tmps.append(pickle.loads(pickle.dumps(proxy)))
                else:
                    tmps.append(getattr(mgr, tmpkind)())
                results.append(('ret', None))
            elif s == 'droptmp':
                tmps.pop()
                gc.collect()
                results.append(('ret', None))
                # (the server's thread population changes meanwhile)
                conn.send(('noise',))
                conn.recv()
            elif s == 'noise':
                conn.send(('noise',))
                conn.recv()
                results.append(('ret', None))
            else:
                results.append(_do(proxy, s))
        del tmps[:]
        gc.collect()
        conn.send(('done', results))
    except BaseException as exc:
        try:
            conn.send(('crash', '%s: %s' % (type(exc).__name__, exc)))
        except Exception:
            pass


def execute(case):
    import billiard
    from billiard.managers import SyncManager
    ctx = billiard.get_context('fork')
    tname = case['type']
    steps = _normalise(case['steps'], tname)
    labels = {'type:' + tname, 'via:' + case['via'], 'tmp:' + case['tmpkind']}
    mgr = SyncManager()
    mgr.start()
    stop_noise = threading.Event()
    noise_threads = []
    p = None
    try:
        proxy = getattr(mgr, tname)()
        a, b = ctx.Pipe(True)
        if case['via'] == 'inherit':
            HELD['p'] = proxy
            arg = 'p'
        else:
            arg = proxy
        p = ctx.Process(target=child_main, args=(
            arg, case['tmpkind'], steps, b, mgr.address,
            bytes(billiard.current_process().authkey)))
        p.daemon = True
        p.start()
        b.close()
        p._args = ()
        HELD.clear()
        arg = None

        def one_call():
            try:
                lst = mgr.list()
                lst.append(1)
                stop_noise.wait(120)
                del lst
            except Exception:
                pass
        got = None
        while True:
            if not a.poll(90):
                return inconclusive('child silent', sorted(labels))
            msg = a.recv()
            if msg[0] == 'noise':
                for _ in range(6):
                    t = threading.Thread(target=one_call, daemon=True)
                    t.start()
                    noise_threads.append(t)
                # the calls have been served when the lists exist
                for _ in range(2000):
                    if mgr._number_of_objects() >= 1 + len(noise_threads):
                        break
                    stop_noise.wait(0.005)
                a.send('ok')
                continue
            got = msg
            break
        p.join(60)
        if got[0] == 'crash':
            return bad('C20/affine/child-crashed', got[1], True, sorted(labels))
        # the same script on a local object, one thread
        local = _local(tname)
        want = []
        for s in steps:
            want.append(_do(local, s) if s in ('acquire', 'release', 'notify')
                        else ('ret', None))
        held_at_drop = False
        depth = 0
        for s in steps:
            depth += (s == 'acquire') - (s == 'release')
            if s == 'droptmp' and depth > 0:
                held_at_drop = True
        if held_at_drop:
            labels.add('other_proxy_dropped_while_holding')
        for s, g, w in zip(steps, got[1], want):
            if g != w:
                return bad('C20/affine/%s-%s' % (tname, s),
                           'child script %r: step %s through the proxy gave %r, '
                           'the local object gives %r' % (steps, s, g, w),
                           True, sorted(labels))
        if not proxy.acquire(False):
            return bad('C20/affine/left-locked', 'after the child released as '
                       'often as it acquired (script %r) the %s is still held'
                       % (steps, tname), True, sorted(labels))
        proxy.release()
        stop_noise.set()
        for t in noise_threads:
            t.join(30)
        del proxy
        gc.collect()
        left = mgr._number_of_objects()
        if left:
            return bad('C20/affine/not-disposed', '%d objects left' % left, True,
                       sorted(labels))
    finally:
        stop_noise.set()
        HELD.clear()
        if p is not None and p.is_alive():
            p.terminate()
            p.join(10)
        try:
            mgr.shutdown()
        except Exception:
            pass
    return ok(held_at_drop, sorted(labels))
