"""E3 parent side: run a scenario in a watchdogged child process group and return
its observations (plus exec.log / exit-callback log / stack dumps)."""
import json
import os
import shutil
import signal
import subprocess
import sys
import tempfile
import time

VERIF = os.path.dirname(os.path.dirname(os.path.abspath(__file__)))


def _read_lines(path):
    try:
        with open(path) as f:
            return [l.split() for l in f.read().splitlines() if l.strip()]
    except FileNotFoundError:
        return []


def _pids_of_group(pgid):
    out = []
    for d in os.listdir('/proc'):
        if not d.isdigit():
            continue
        try:
            with open('/proc/%s/stat' % d) as f:
                st = f.read()
            rest = st[st.rindex(')') + 2:].split()
            if int(rest[2]) == pgid:      # pgrp
                out.append((int(d), rest[0]))
        except (OSError, ValueError, IndexError):
            pass
    return out


def run_scenario(scen, repo=None):
    """returns obs dict; obs['hung'] True when the watchdog had to kill it"""
    watch = scen.get('watch', 60)
    tmpdir = tempfile.mkdtemp(prefix='rp-')
    sp = os.path.join(tmpdir, 'scenario.json')
    op = os.path.join(tmpdir, 'out.json')
    with open(sp, 'w') as f:
        json.dump(scen, f)
    env = dict(os.environ)
    env['PYTHONPATH'] = os.pathsep.join(
        [VERIF, repo or os.environ.get('VERIF_REPO', '/repo'),
         os.path.join(VERIF, '.deps')])
    t0 = time.monotonic()
    log = open(os.path.join(tmpdir, 'child.log'), 'w+')
    proc = subprocess.Popen(
        [sys.executable, '-m', 'engines.realpool_child', sp, op, tmpdir],
        cwd=VERIF, env=env, stdout=log, stderr=subprocess.STDOUT,
        start_new_session=True)
    hung = False
    try:
        proc.wait(timeout=watch)
    except subprocess.TimeoutExpired:
        hung = True
        # ask the workers for their stacks before killing everything
        for pid, st in _pids_of_group(proc.pid):
            if pid != proc.pid:
                try:
                    os.kill(pid, signal.SIGWINCH)
                except OSError:
                    pass
        time.sleep(0.3)
    obs = {}
    try:
        with open(op) as f:
            obs = json.load(f)
    except (FileNotFoundError, ValueError):
        obs = {'no_output': True}
    obs['hung'] = hung
    obs['rc'] = proc.poll()
    obs['wall'] = time.monotonic() - t0
    # leftovers of the process group = what the scenario did not clean up
    left = [(p, s) for p, s in _pids_of_group(proc.pid) if p != proc.pid]
    obs['group_leftovers'] = left
    try:
        os.killpg(proc.pid, signal.SIGKILL)
    except OSError:
        pass
    try:
        proc.wait(timeout=10)
    except subprocess.TimeoutExpired:
        pass
    obs['exec'] = _read_lines(os.path.join(tmpdir, 'exec.log'))
    obs['exitcb'] = _read_lines(os.path.join(tmpdir, 'exitcb.log'))
    obs['events'] = _read_lines(os.path.join(tmpdir, 'events.log'))
    try:
        with open(os.path.join(tmpdir, 'stacks.txt')) as f:
            obs['stacks'] = f.read()[-6000:]
    except FileNotFoundError:
        obs['stacks'] = ''
    ws = {}
    for name in os.listdir(tmpdir):
        if name.startswith('wstack-'):
            try:
                with open(os.path.join(tmpdir, name)) as f:
                    txt = f.read()
                if txt.strip():
                    ws[name[7:]] = txt[-1500:]
            except OSError:
                pass
    obs['worker_stacks'] = ws
    log.seek(0)
    obs['child_log'] = log.read()[-3000:]
    log.close()
    shutil.rmtree(tmpdir, ignore_errors=True)
    return obs


def main_thread_in(stacks, funcs):
    """does the main thread's dumped stack contain one of the functions?
    (faulthandler prints the current thread last, labelled 'Current thread' or
    'Thread ... (most recent call first)')"""
    if not stacks:
        return False
    blocks = stacks.split('\n\n')
    for b in blocks:
        if 'realpool_child.py' in b and ' in main' in b:
            return any((' in %s' % fn) in b for fn in funcs)
    return False
