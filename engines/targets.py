"""Module-level task functions (importable by child processes and picklable
through billiard's queues).  A task is described by a JSON-able *spec* so that
cases stay serialisable: ``functools.partial(task, spec)`` is what travels."""
import functools
import os
import time

EXC = {
    'ValueError': ValueError, 'KeyError': KeyError, 'OSError': OSError,
    'RuntimeError': RuntimeError, 'ZeroDivisionError': ZeroDivisionError,
    'LookupError': LookupError,
}


class CustomError(Exception):
    pass


class CustomBase(BaseException):
    pass


EXC['CustomError'] = CustomError
EXC['CustomBase'] = CustomBase
EXC['KeyboardInterrupt'] = KeyboardInterrupt


def task(spec, x):
    kind = spec[0]
    if kind == 'id':
        return x
    if kind == 'affine':
        return spec[1] * x + spec[2]
    if kind == 'pair':
        return [x, 'v%s' % (x,)]
    if kind == 'raise_if':
        # spec = ['raise_if', [bad inputs], excname]
        if x in spec[1]:
            raise EXC[spec[2]](x, 'boom')
        return x * 2
    raise AssertionError('unknown task spec %r' % (spec,))


def task2(spec, a, b):
    kind = spec[0]
    if kind == 'add':
        return a + b
    if kind == 'raise_if':
        if a in spec[1]:
            raise EXC[spec[2]](a, 'boom')
        return [a, b]
    return task(spec, a)


def make(spec, star=False):
    return functools.partial(task2 if star else task, spec)


def sequential(spec, inputs, star=False):
    """The reference: outcome per input computed in this process, in order.
    ('ok', value) or ('err', excname, args)."""
    out = []
    f = make(spec, star)
    for x in inputs:
        try:
            out.append(('ok', f(*x) if star else f(x)))
        except BaseException as exc:   # CustomBase / KeyboardInterrupt included
            out.append(('err', type(exc).__name__, list(exc.args)))
    return out
