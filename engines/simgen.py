"""Hypothesis strategies producing simpool cases ({'config', 'ops'})."""
from hypothesis import strategies as st

SIGNALS = [1, 2, 3, 4, 6, 7, 8, 9, 10, 11, 12, 13, 14, 15, 24, 25, 30, 31]

k = st.integers(0, 7)
spec_ok = st.one_of(
    st.just(['id']), st.just(['pair']),
    st.tuples(st.just('affine'), st.integers(-3, 3), st.integers(-5, 5)).map(list))
exc_names = st.sampled_from(['ValueError', 'KeyError', 'CustomError', 'OSError',
                             'CustomBase', 'KeyboardInterrupt'])


def spec_raising(maxn):
    return st.tuples(
        st.just('raise_if'),
        st.lists(st.integers(0, max(maxn - 1, 0)), max_size=4, unique=True),
        exc_names).map(list)


def spec(maxn=12):
    return st.one_of(spec_ok, spec_ok, spec_raising(maxn))


status = st.one_of(
    st.sampled_from(SIGNALS).map(lambda s: -s),
    st.sampled_from([1, 2, 15, 70, 100, 155, 241, 255]),
    st.integers(1, 255),
)
status_any = st.one_of(status, st.sampled_from([0, 155]))
lim = st.sampled_from([None, None, 1, 2, 3, 5, 10, 20])
dt = st.sampled_from([0.01, 0.1, 0.5, 0.9, 1.0, 1.1, 2.0, 5.0, 9.99, 10.0,
                      10.01, 30.0])


autofeed = st.sampled_from([True, True, False])


def op_apply(limits=False, lost=False, unpicklable=False, soft=None, hard=None,
             cbscan=False):
    opts = {}
    if cbscan:
        # a slow result callback during which this much time passes and the
        # timeout scanner thread runs once
        opts['cbscan'] = st.sampled_from([None, None, 1.0, 3.0, 10.0, 20.0])
    if limits:
        opts['soft'] = soft if soft is not None else lim
        opts['hard'] = hard if hard is not None else lim
    if lost:
        opts['lost'] = st.sampled_from([None, 0.5, 2.0, 30.0])
    if unpicklable:
        opts['unpicklable'] = st.sampled_from([False, False, False, True])
    return st.tuples(st.just('apply'), spec(4), st.integers(0, 3),
                     st.fixed_dictionaries(opts), autofeed).map(list)


def op_map():
    return st.tuples(st.just('map'), spec(12), st.integers(0, 12),
                     st.sampled_from([None, 1, 2, 3, 5, 14]),
                     st.booleans(), autofeed).map(list)


def op_imap(chunked=False):
    cs = st.sampled_from([1, 1, 2, 3]) if chunked else st.just(1)
    return st.tuples(st.just('imap'), spec(8), st.integers(0, 8), cs,
                     st.booleans(), autofeed).map(list)


worker_ops = [
    st.tuples(st.just('take'), k).map(list),
    st.tuples(st.just('take'), k).map(list),
    st.tuples(st.just('finish'), k).map(list),
    st.tuples(st.just('finish'), k).map(list),
    st.tuples(st.just('deliver'), k).map(list),
    st.tuples(st.just('deliver'), k).map(list),
    st.tuples(st.just('deliver'), k).map(list),
]
work = st.tuples(st.just('work'), k).map(list)
run = st.tuples(st.just('run'), k).map(list)
adv_lim = st.tuples(st.just('adv'), st.sampled_from(
    [0.99, 1.0, 1.01, 1.99, 2.0, 2.01, 3.0, 4.99, 5.0, 5.01, 9.99, 10.0, 10.01,
     19.99, 20.0, 20.01])).map(list)
dier = st.tuples(st.just('die'), k, status, st.just(True)).map(list)
# a worker leaving mid-task with the clean / recycle exit status
dier0 = st.tuples(st.just('die'), k, st.sampled_from([0, 155]),
                  st.just(True)).map(list)
slow = st.tuples(st.just('slow'), k, st.sampled_from([3.0, 11.0, 12.0, 25.0])).map(list)
straggle = st.tuples(st.just('straggle'), k,
                     st.sampled_from([2.0, 11.0, 12.0, 25.0]),
                     st.booleans()).map(list)
parkrecycle = st.tuples(st.just('parkrecycle'), k,
                        st.sampled_from([3.0, 12.0, 25.0, 40.0])).map(list)
lastgasp = st.tuples(st.just('lastgasp'), k, status_any).map(list)
feed = st.one_of(st.tuples(st.just('feed')).map(list),
                 st.just(['feed', None, False, True]))
feed_fault = st.tuples(st.just('feed'), st.one_of(st.none(), st.integers(0, 3)),
                       st.booleans()).map(list)
tick = st.just(['tick'])
adv = st.tuples(st.just('adv'), dt).map(list)
die = st.tuples(st.just('die'), k, status).map(list)
die_any = st.tuples(st.just('die'), k, status_any).map(list)
wexit = st.tuples(st.just('wexit'), k).map(list)
dup = st.tuples(st.just('dup'), k).map(list)
scan = st.tuples(st.just('scan'), st.booleans(),
                 st.sampled_from([-15, 15])).map(list)
scanrace = st.tuples(st.just('scanrace'), st.integers(0, 6), k,
                     st.booleans()).map(list)
discard = st.tuples(st.just('discard'), k).map(list)
tjob = st.tuples(st.just('tjob'), k, st.sampled_from([None, 9])).map(list)
hterm = st.tuples(st.just('hterm'), k, st.sampled_from([-15, 15])).map(list)
grow = st.tuples(st.just('grow'), st.integers(1, 2)).map(list)
shrink = st.tuples(st.just('shrink'), st.just(1)).map(list)
close = st.just(['close'])
closerace = st.sampled_from([['closerace'], ['closerace', 'create']])
join = st.just(['join'])
drainlimit = st.tuples(st.just('drainlimit'), k,
                       st.sampled_from([1.5, 3.0, 6.0, 11.0, 25.0])).map(list)


def config(procs=(1, 4), threads=None, maxtasks=False, limits=False,
           putlocks=None, lost=False, restarts=False, pgleader=False,
           soft=None, hard=None):
    d = {'procs': st.integers(*procs)}
    d['threads'] = st.booleans() if threads is None else st.just(threads)
    if maxtasks:
        d['maxtasks'] = st.sampled_from([None, None, 1, 2, 3])
    if limits:
        d['timeout'] = hard if hard is not None else lim
        d['soft'] = soft if soft is not None else lim
    if putlocks is None:
        d['putlocks'] = st.booleans()
    else:
        d['putlocks'] = st.just(putlocks)
    if lost:
        d['lost'] = st.sampled_from([None, 0.5, 2.0, 30.0])
    if restarts:
        d['max_restarts'] = st.sampled_from([None, 1, 2, 3, 5])
        d['max_restart_freq'] = st.sampled_from([1, 0.5, 2, 10])
    if pgleader:
        d['pgleader'] = st.booleans()
    return st.fixed_dictionaries(d)


def history(cfg, ops, max_ops=60, min_ops=1):
    return st.fixed_dictionaries({
        'config': cfg,
        'ops': st.lists(st.one_of(*ops), min_size=min_ops, max_size=max_ops),
    })
