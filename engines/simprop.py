"""Helper to build execute functions for the simulator-based property parts."""
from engines.simoracle import run_case
from vlib.core import bad, ok


def make_execute(clauses, nontrivial, prop=None):
    """``nontrivial(labels, sim)`` -> bool"""
    def execute(case):
        sig, detail, labels, sim = run_case(case, set(clauses), prop=prop)
        nt = bool(nontrivial(labels, sim))
        lbs = sorted(labels)
        if sig:
            return bad(sig, detail, nt, lbs)
        return ok(nt, lbs)
    return execute
