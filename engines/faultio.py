"""faultio - in-memory read/write "syscalls" for billiard.connection.Connection.

``Connection._send(self, buf, write=os.write)`` and
``Connection._recv(self, size, read=os.read)`` take the syscall as a default
argument, and ``compat.send_offset`` calls the module global
``compat.__write__``.  ``FaultIO.installed()`` swaps those three for fakes that
move bytes through in-memory channels under a generated *plan* (how many bytes
each call transfers, which calls fail with EINTR) and restores them afterwards.
Nothing in /repo is edited; the seam is checked before it is used, so a tree in
which it moved gives a harness error instead of a silently untested run.

``Counting.installed()`` uses the same seam on real descriptors: the calls go
to ``os.write``/``os.read`` unchanged and are only counted per descriptor
(calls, bytes, short transfers), which is how the real-kernel part shows that a
rejected call did no I/O and that the kernel really fragmented something.

Plan values (both directions): ``0`` fail this call with EINTR, ``-1`` transfer
everything asked for, ``k > 0`` transfer at most ``k`` bytes.  The plan is used
cyclically; one connection-level operation (the caller announces it with
``begin_op``) may consume at most ``allow`` plan entries, afterwards every call
transfers ``tail`` bytes (``-1`` = all) so that a 300 000-byte message does not
cost 300 000 Python-level calls.
"""
import contextlib
import errno
import os

from vlib.core import HarnessError


class Runaway(RuntimeError):
    """The code under test made far more syscalls than any correct loop can."""


class Starved(RuntimeError):
    """A read on a channel that is empty and whose writer is still open: the
    real call would block forever (the harness never lets this happen)."""


class Channel:
    __slots__ = ('wfd', 'rfd', 'data', 'rpos', 'limit', 'closed')

    def __init__(self, wfd, rfd):
        self.wfd = wfd
        self.rfd = rfd
        self.data = bytearray()
        self.rpos = 0
        self.limit = None     # reader sees data[:limit] only (peer died there)
        self.closed = False   # writer end closed

    def close_writer(self, cut=None):
        """peer closes; with ``cut`` the stream ends after that many bytes"""
        self.closed = True
        if cut is not None:
            self.limit = cut

    def wire(self):
        return bytes(self.data)


class FaultIO:
    def __init__(self, wplan=(), wtail=-1, rplan=(), rtail=-1, allow=48,
                 call_budget=50000):
        self.wplan = [int(x) for x in wplan]
        self.rplan = [int(x) for x in rplan]
        self.wtail = int(wtail) or -1
        self.rtail = int(rtail) or -1
        self.allow = allow
        self.call_budget = call_budget
        self._wcur = self._rcur = 0
        self._opcalls = 0
        self._by_w = {}
        self._by_r = {}
        self.w_calls = self.w_bytes = self.r_calls = self.r_bytes = 0
        self.w_eintr = self.r_eintr = self.w_short = self.r_short = 0
        self.stray = 0

    # -- topology ---------------------------------------------------------
    def channel(self, wfd, rfd):
        ch = Channel(wfd, rfd)
        self._by_w[wfd] = ch
        self._by_r[rfd] = ch
        return ch

    def begin_op(self):
        self._opcalls = 0

    def io_count(self):
        """number of syscalls made so far (any kind, any descriptor)"""
        return self.w_calls + self.r_calls

    # -- plan -------------------------------------------------------------
    def _decide(self, plan, cur, tail):
        if self.io_count() > self.call_budget:
            raise Runaway('more than %d fake syscalls' % self.call_budget)
        if not plan or self._opcalls >= self.allow:
            return tail, cur
        self._opcalls += 1
        return plan[cur % len(plan)], cur + 1

    # -- the fakes --------------------------------------------------------
    def write(self, fd, buf):
        self.w_calls += 1
        ch = self._by_w.get(fd)
        if ch is None:
            self.stray += 1
            raise OSError(errno.EBADF, 'Bad file descriptor (faultio)')
        mv = memoryview(buf)
        if mv.format != 'B' or mv.ndim != 1:
            mv = mv.cast('B')
        k, self._wcur = self._decide(self.wplan, self._wcur, self.wtail)
        if k == 0:
            self.w_eintr += 1
            raise InterruptedError(errno.EINTR, 'Interrupted system call')
        n = len(mv)
        take = n if k < 0 else min(k, n)
        if take < n:
            self.w_short += 1
        ch.data += mv[:take]
        self.w_bytes += take
        return take

    def read(self, fd, n):
        self.r_calls += 1
        ch = self._by_r.get(fd)
        if ch is None:
            self.stray += 1
            raise OSError(errno.EBADF, 'Bad file descriptor (faultio)')
        if n < 0:
            raise OSError(errno.EINVAL, 'Invalid argument')
        k, self._rcur = self._decide(self.rplan, self._rcur, self.rtail)
        if k == 0:
            self.r_eintr += 1
            raise InterruptedError(errno.EINTR, 'Interrupted system call')
        end = len(ch.data) if ch.limit is None else min(ch.limit, len(ch.data))
        avail = end - ch.rpos
        if n == 0:
            return b''
        if avail <= 0:
            if ch.closed:
                return b''
            raise Starved('read(%d) on an empty open channel' % n)
        take = min(n, avail) if k < 0 else min(k, n, avail)
        if take < min(n, avail):
            self.r_short += 1
        out = bytes(ch.data[ch.rpos:ch.rpos + take])
        ch.rpos += take
        self.r_bytes += take
        return out

    @contextlib.contextmanager
    def installed(self):
        with _seam(self.write, self.read):
            yield self


class _FdStats:
    __slots__ = ('w_calls', 'w_bytes', 'w_short', 'r_calls', 'r_bytes',
                 'r_short', 'w_stall', 'r_stall')

    def __init__(self):
        self.w_calls = self.w_bytes = self.w_short = 0
        self.r_calls = self.r_bytes = self.r_short = 0
        self.w_stall = self.r_stall = 0   # consecutive calls without progress

    def calls(self):
        return self.w_calls + self.r_calls


class Counting:
    """pass-through wrappers around the real syscalls, counted per fd.

    ``stall_limit`` consecutive calls on one descriptor that fail or move no
    bytes raise ``Runaway``: no correct retry loop does that, and a broken one
    (retrying EPIPE, writing an empty buffer for ever) would otherwise spin in
    its thread until the harness gives up on joining it.  ``byte_budget``
    bounds the bytes moved per descriptor and direction the same way (a loop
    that keeps re-sending its last byte makes progress on every call)."""

    def __init__(self, fds, stall_limit=20000, byte_budget=None):
        self.fd = {int(f): _FdStats() for f in fds}
        self.other = _FdStats()
        self.stall_limit = stall_limit
        self.byte_budget = byte_budget

    def _st(self, fd):
        return self.fd.get(fd, self.other)

    def write(self, fd, buf):
        st = self._st(fd)
        st.w_calls += 1
        st.w_stall += 1
        if st.w_stall > self.stall_limit:
            raise Runaway('%d consecutive write calls without progress'
                          % self.stall_limit)
        if self.byte_budget is not None and st.w_bytes > self.byte_budget:
            raise Runaway('more than %d bytes written' % self.byte_budget)
        n = os.write(fd, buf)
        if n:
            st.w_stall = 0
        st.w_bytes += n
        if n < memoryview(buf).nbytes:
            st.w_short += 1
        return n

    def read(self, fd, n):
        st = self._st(fd)
        st.r_calls += 1
        st.r_stall += 1
        if st.r_stall > self.stall_limit:
            raise Runaway('%d consecutive read calls without progress'
                          % self.stall_limit)
        if self.byte_budget is not None and st.r_bytes > self.byte_budget:
            raise Runaway('more than %d bytes read' % self.byte_budget)
        chunk = os.read(fd, n)
        if chunk:
            st.r_stall = 0
        st.r_bytes += len(chunk)
        if 0 < len(chunk) < n:
            st.r_short += 1
        return chunk

    @contextlib.contextmanager
    def installed(self):
        with _seam(self.write, self.read):
            yield self


@contextlib.contextmanager
def _seam(write, read):
    from billiard import compat, connection
    C = connection.Connection
    send_d, recv_d = C._send.__defaults__, C._recv.__defaults__
    cw = getattr(compat, '__write__', None)
    if not (isinstance(send_d, tuple) and len(send_d) == 1 and
            send_d[0] is os.write and isinstance(recv_d, tuple) and
            len(recv_d) == 1 and recv_d[0] is os.read and cw is os.write):
        raise HarnessError('faultio seam changed: Connection._send/_recv '
                           'defaults %r %r, compat.__write__ %r'
                           % (send_d, recv_d, cw))
    C._send.__defaults__ = (write,)
    C._recv.__defaults__ = (read,)
    setattr(compat, '__write__', write)
    try:
        yield
    finally:
        C._send.__defaults__ = send_d
        C._recv.__defaults__ = recv_d
        setattr(compat, '__write__', cw)
