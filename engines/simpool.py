"""E1 simpool - the real ``billiard.pool.Pool`` parent code driven single-threaded
with simulated worker processes, a harness-owned schedule and a fake clock.

Real code under test: everything Pool does in the parent (apply_async,
_map_async, imap*, TaskHandler.body, ResultHandler.on_state_change /
_process_result / finish_at_shutdown, TimeoutHandler.handle_timeouts,
_join_exited_workers, _repopulate_pool, grow/shrink, close/join, result classes).

Replaced (test side only): context (SimCtx -> SimProcess), the four handler
threads' start()/stop(), billiard.pool.monotonic / billiard.common.monotonic
(FakeClock), billiard.pool._kill / .os / .time (recorders), ResultHandler.poll
(serves harness-owned messages), billiard.pool.job_counter (reset per case).

A case is {'config': {...}, 'ops': [[name, args...], ...]}.  ``run_case`` applies
the ops, calls ``sim.observe()`` after each (oracle clauses selected by
``checks``) and returns (violation-or-None, labels).
"""
import errno
import itertools
import logging
import pickle
import queue
import signal
import sys
import threading
import time as _real_time
import os as _real_os

import billiard
import billiard.common as bc
import billiard.pool as bp
from billiard.einfo import ExceptionInfo
from billiard.exceptions import (RestartFreqExceeded, Terminated,
                                 TimeLimitExceeded, WorkerLostError)

from engines import targets

logging.getLogger('multiprocessing').addHandler(logging.NullHandler())
logging.getLogger('multiprocessing').propagate = False

PID_BASE = 5_000_000          # above pid_max: no real process is ever addressed
ACK, READY, TASK, NACK, DEATH = bp.ACK, bp.READY, bp.TASK, bp.NACK, bp.DEATH
EX_RECYCLE = bp.EX_RECYCLE

CURRENT = [None]              # the Sim being executed (routing of fake syscalls)
_REALCTX = billiard.get_context('fork')


class SimHarnessError(Exception):
    pass


class Violation(Exception):
    def __init__(self, signature, detail=''):
        Exception.__init__(self, signature, detail)
        self.signature = signature
        self.detail = detail


# ---------------------------------------------------------------------------
# fakes installed once per process
# ---------------------------------------------------------------------------

class FakeClock:
    def __init__(self):
        self.now = 1000.0
        self.hook = None        # called on every read (used to interleave a
                                # result arrival with a running timeout scan)

    def __call__(self):
        if self.hook is not None:
            self.hook()
        return self.now


CLOCK = FakeClock()


class _FakeTime:
    def sleep(self, dt):
        CLOCK.now += dt
        sim = CURRENT[0]
        if sim is not None:
            sim.on_sleep(dt)

    def __getattr__(self, name):
        return getattr(_real_time, name)


def _route(pid, sig):
    sim = CURRENT[0]
    if sim is None or pid < PID_BASE:
        raise SimHarnessError('signal %r aimed at real pid %r' % (sig, pid))
    proc = sim.by_pid.get(pid)
    if proc is None or proc.reaped:
        raise ProcessLookupError(errno.ESRCH, 'No such process')
    proc.signal(sig)


class _FakeOS:
    def kill(self, pid, sig):
        _route(pid, sig)

    def getpgid(self, pid):
        sim = CURRENT[0]
        proc = sim.by_pid.get(pid) if sim else None
        if proc is None or proc.reaped:
            raise ProcessLookupError(errno.ESRCH, 'No such process')
        return pid if sim.config.get('pgleader') else 1

    def killpg(self, pgid, sig):
        _route(pgid, sig)

    def _exit(self, code):
        raise SimHarnessError('os._exit(%r) reached inside the simulation' % code)

    def __getattr__(self, name):
        return getattr(_real_os, name)


_installed = [False]


def install():
    if _installed[0]:
        return
    bp.monotonic = CLOCK
    bc.monotonic = CLOCK
    bp._kill = _route
    bp.os = _FakeOS()
    bp.time = _FakeTime()
    _installed[0] = True


# ---------------------------------------------------------------------------
# simulated processes / workers
# ---------------------------------------------------------------------------

IDLE, RUNNING, DRAINING, DEAD = 'IDLE', 'RUNNING', 'DRAINING', 'DEAD'


class SimPopen:
    def __init__(self, proc):
        self.proc = proc
        self.pid = proc.pid
        self.returncode = None
        self.sentinel = -1

    def poll(self):
        return self.returncode

    def wait(self, timeout=None):
        sim = self.proc.sim
        if self.returncode is None and self.proc.term_pending and \
                sim.obey_term:
            self.proc.exit(sim.term_status)
        if self.returncode is None and timeout is None:
            sim.blocking_wait(self.proc)
        return self.returncode

    def terminate(self):
        if self.returncode is None:
            self.proc.signal(signal.SIGTERM)

    def close(self):
        pass


class SimProcess:
    def __init__(self, sim, target=None, **kw):
        self.sim = sim
        self._target = target
        self._name = 'Process-sim'
        self.daemon = False
        self._popen = None
        self._controlled_termination = False
        self.pid = None
        # worker model
        self.state = IDLE
        self.outbox = []
        self.current = None
        self.completed = 0
        self.drain_since = None
        self.term_pending = False
        self.reaped = False
        self.soft_signals = 0
        self.last_delivered = None
        self.guard_waited = False
        self.busy_until = 0.0
        self.drain_code = EX_RECYCLE
        self.late_readies = 0
        # the pool builds the process object before it lists the worker
        hook = getattr(sim, 'create_hook', None)
        if hook is not None:
            hook(self)

    # -- process API used by Pool ------------------------------------------
    @property
    def name(self):
        return self._name

    @name.setter
    def name(self, v):
        self._name = v

    def start(self):
        assert self._popen is None
        self.pid = self.sim.new_pid()
        self._popen = SimPopen(self)
        self.sim.register(self)
        hook = getattr(self.sim, 'start_hook', None)
        if hook is not None:
            hook(self)

    @property
    def exitcode(self):
        return None if self._popen is None else self._popen.returncode

    def _is_alive(self):
        return self._popen is not None and self._popen.returncode is None

    is_alive = _is_alive

    def join(self, timeout=None):
        if self._popen is None:
            return
        if self._popen.wait(timeout) is not None:
            self.reaped = True

    def terminate(self):
        self._popen.terminate()

    def terminate_controlled(self):
        self._controlled_termination = True
        self.terminate()

    def close(self):
        pass

    # -- model side ---------------------------------------------------------
    @property
    def alive(self):
        return self._is_alive()

    @property
    def maxtasks(self):
        return self._target.maxtasks

    def signal(self, sig):
        sim = self.sim
        sim.signals.append((self.pid, int(sig), CLOCK.now, len(sim.log)))
        if not self.alive:
            return
        if sig == signal.SIGKILL:
            self.exit(-int(signal.SIGKILL))
        elif sig == signal.SIGTERM:
            self.term_pending = True
        elif sig == bp.SIG_SOFT_TIMEOUT:
            self.soft_signals += 1
        else:
            self.exit(-int(sig))

    def exit(self, status):
        assert self.alive
        self._popen.returncode = status
        self.sim.on_exit(self, status)
        self.state = DEAD

    def may_drain_exit(self):
        if self.state != DRAINING:
            return False
        counter = self._target.on_ready_counter
        if counter is not None and counter.value >= self.completed:
            return True
        if CLOCK.now - self.drain_since >= 30.0:
            # held up by the pool only if the parent had consumed all of this
            # worker's results and still did not credit them (a schedule that
            # leaves a READY undelivered for 30 s is the harness's doing)
            # ... during join() nobody but the pool decides what is consumed: if
            # its result handler has stopped reading, that is the pool's doing
            if self.sim.in_join or not any(m[0] == READY for m in self.outbox):
                self.guard_waited = True
                # results never consumed because their job had left the cache
                self.late_readies += sum(
                    1 for m in self.outbox if m[0] == READY and
                    m[1][0] not in self.sim.pool._cache)
            return True
        return False


class _Sink:
    def put(self, obj):
        pass


class SimCtx:
    def __init__(self, sim):
        self.sim = sim

    def Process(self, *a, **kw):
        return SimProcess(self.sim, *a, **kw)

    def SimpleQueue(self):
        return _REALCTX.SimpleQueue()

    def Value(self, *a, **kw):
        return _REALCTX.Value(*a, **kw)

    def Event(self):
        return _REALCTX.Event()


def _mk_handlers():
    class SimSupervisor(bp.Supervisor):
        def start(self, *a, **kw):
            self._was_started = True

        def stop(self, timeout=None):
            # joining the supervisor from another thread while it is inside a
            # supervision pass (operation closerace) waits for that pass to end
            gate = getattr(CURRENT[0], 'supervisor_gate', None)
            if gate is not None and \
                    threading.current_thread() is not gate['owner']:
                gate['blocked'].set()
                if not gate['done'].wait(60):
                    raise SimHarnessError('supervision pass never ended')

    class SimTaskHandler(bp.TaskHandler):
        def start(self, *a, **kw):
            self._was_started = True

        def stop(self, timeout=None):
            if self._was_started:
                CURRENT[0].drain_taskqueue()
            else:
                self.on_stop_not_started()
                CURRENT[0].readback()

    class SimTimeoutHandler(bp.TimeoutHandler):
        def start(self, *a, **kw):
            self._was_started = True

        def stop(self, timeout=None):
            pass

    class SimResultHandler(bp.ResultHandler):
        def start(self, *a, **kw):
            self._was_started = True

        def stop(self, timeout=None):
            if self._was_started:
                if not self._shutdown_complete:
                    self.finish_at_shutdown()
            else:
                self.on_stop_not_started()

    return SimSupervisor, SimTaskHandler, SimTimeoutHandler, SimResultHandler


class SimPool(bp.Pool):
    Supervisor, TaskHandler, TimeoutHandler, ResultHandler = _mk_handlers()

    def __init__(self, sim, **kw):
        self._sim = sim
        bp.Pool.__init__(self, context=SimCtx(sim), **kw)

    def on_process_down(self, worker):   # assigned None by Pool.__init__
        pass


# ---------------------------------------------------------------------------
# model
# ---------------------------------------------------------------------------

class MPart:
    __slots__ = ('i', 'owner', 'taken', 'finished', 'ready_delivered',
                 'ack_delivered', 'ack_time', 'items', 'detected_at',
                 'ack_delivered_at')

    def __init__(self, i, items):
        self.i = i
        self.items = items          # indexes into job.expected
        self.owner = None
        self.taken = False
        self.finished = False
        self.ready_delivered = False
        self.ack_delivered = False
        self.ack_time = None
        self.ack_delivered_at = 0.0
        self.detected_at = None


class MJob:
    def __init__(self, idx, kind):
        self.idx = idx
        self.kind = kind
        self.handle = None
        self.jobid = None
        self.parts = {}
        self.expected = []
        self.chunksize = 1
        self.opts = {}
        self.cb = {'callback': 0, 'error': 0, 'accept': 0, 'timeout': []}
        self.order = []             # callback order log
        self.first = None           # first observed terminal snapshot
        self.first_time = None
        self.discarded = False
        self.events = {}            # 'lost' -> [(pid,status,Td)], 'terminated', 'putfail'
        self.yielded = []           # imap: outcomes collected by the oracle
        self.stopped = False
        self.slot = False           # took a put-lock slot
        self.lost_timeout = None
        self.submit_time = None
        self.fed = False

    @property
    def multipart(self):
        return self.kind != 'apply'

    def resolved(self):
        h = self.handle
        if self.kind in ('apply', 'map', 'starmap'):
            return h.ready()
        return self.stopped or (h._length is not None and
                                len(self.yielded) + len(h._items) >= h._length)


def unwrap(exc):
    return getattr(exc, 'exc', exc) if type(exc).__name__ == \
        'ExceptionWithTraceback' else exc


def fail_desc(einfo):
    try:
        exc = unwrap(einfo.exception)
        return (einfo.type.__name__, repr(list(exc.args)))
    except Exception as e:   # not an ExceptionInfo
        return ('<%s>' % type(einfo).__name__, repr(einfo))


POOL_MADE = ('WorkerLostError', 'Terminated', 'TimeLimitExceeded')


class Sim:
    def __init__(self, config):
        install()
        CURRENT[0] = self
        CLOCK.now = 1000.0
        CLOCK.hook = None
        bp.job_counter = itertools.count()
        self.config = config
        self.by_pid = {}
        self.procs = []            # every SimProcess ever started, in order
        self.signals = []          # (pid, sig, time, logpos)
        self.log = []              # executed ops (for details)
        self.fifo = []             # tasks readable by workers (FIFO)
        self.jobs = []
        self.by_jobid = {}
        self.labels = set()
        self.obey_term = True
        self.term_status = -15
        self._pid = itertools.count(PID_BASE + 1)
        self.exits = []            # (pid, status, time, state_before)
        self.reaps = {}            # pid -> time of the supervision step that reaped it
        self.restart_raised = False
        self.closed = False
        self.joined = False
        self.feeder_done = False
        self.in_join = False
        self.violation = None
        self.raised = []           # unexpected exceptions from pool code
        self.procs_started = 0
        self.any_exit = False
        self.model_target = config['procs']
        self.cb_thread = None
        self.in_scan = False
        self.in_deliver = False
        self.exit_logpos = {}      # pid -> sequence number of its exit
        self.seq = 0               # orders exits and scan starts within an op
        self.excluded = {}
        kw = dict(
            processes=config['procs'], threads=config.get('threads', True),
            maxtasksperchild=config.get('maxtasks'),
            timeout=config.get('timeout'), soft_timeout=config.get('soft'),
            lost_worker_timeout=config.get('lost'),
            putlocks=config.get('putlocks', False),
            max_restarts=config.get('max_restarts'),
            max_restart_freq=config.get('max_restart_freq', 1),
            enable_timeouts=True,
        )
        self.pool = SimPool(self, **kw)
        self.pool._result_handler.poll = self.poll
        # the shutdown path reaps through the result handler: note when
        real_join = self.pool._result_handler.join_exited_workers

        def join_exited_workers(shutdown=False):
            before = set(p.pid for p in self.pool._pool)
            try:
                return real_join(shutdown=shutdown)
            finally:
                for pid in before - set(p.pid for p in self.pool._pool):
                    self.reaps.setdefault(pid, CLOCK.now)
                    self.by_pid[pid].reaped = True
        self.pool._result_handler.join_exited_workers = join_exited_workers
        self.procs_at_start = len(self.procs)

    # -- registry ---------------------------------------------------------
    def new_pid(self):
        return next(self._pid)

    def register(self, proc):
        self.by_pid[proc.pid] = proc
        self.procs.append(proc)
        self.procs_started += 1

    def on_exit(self, proc, status):
        self.exits.append((proc.pid, status, CLOCK.now, proc.state))
        self.seq += 1
        self.exit_logpos[proc.pid] = self.seq
        self.any_exit = True
        # parts this worker had taken and whose READY it never produced
        for mj in self.jobs:
            for p in mj.parts.values():
                if p.owner == proc.pid and p.taken and not p.finished:
                    mj.events.setdefault('owner_died', []).append(
                        (proc.pid, status, p.i))

    def on_sleep(self, dt):
        pass

    def blocking_wait(self, proc):
        """p.join() with no timeout on a live process: in reality the caller
        blocks until the worker exits.  Let it exit if it legitimately can."""
        for _ in range(200):
            if not proc.alive:
                return
            if proc.term_pending:
                proc.exit(self.term_status)
                return
            if not self.step_worker(proc):
                if proc.state == DRAINING:
                    CLOCK.now += 1.0      # it leaves after its 30 s guard at most
                    continue
                if proc.state == RUNNING and CLOCK.now < proc.busy_until:
                    CLOCK.now = proc.busy_until     # a slow task: wait for it
                    continue
                break
        if proc.alive:
            raise Violation('join-blocks', 'join() waits on worker in state %s '
                            'that has no reason to exit' % proc.state)

    # -- plumbing -----------------------------------------------------------
    def readback(self):
        r = self.pool._inqueue._reader
        while r.poll(0):
            self.fifo.append(r.recv())

    def alive_workers(self):
        return [p for p in self.procs if p.alive]

    def pool_workers(self):
        return list(self.pool._pool)

    def _pick(self, population, k):
        return population[k % len(population)] if population else None

    def roundtrip(self, msg):
        return pickle.loads(pickle.dumps(msg, pickle.HIGHEST_PROTOCOL))

    # -- the worker model ---------------------------------------------------
    def w_take(self, proc):
        if not (proc.alive and proc.state == IDLE and self.fifo
                and not proc.term_pending):
            return False
        task = self.fifo.pop(0)
        if task is None:
            # sentinel: clean exit, but only after the worker has made sure its
            # results were consumed (Worker._ensure_messages_consumed runs in
            # workloop's finally block on this path too)
            proc.state = DRAINING
            proc.drain_code = 0
            proc.drain_since = CLOCK.now
            return True
        type_, (job, i, fun, args, kwargs) = task
        assert type_ == TASK
        proc.outbox.append((ACK, (job, i, CLOCK.now, proc.pid, None)))
        proc.current = (job, i, fun, args, kwargs)
        proc.state = RUNNING
        mj = self.by_jobid.get(job)
        if mj is not None:
            part = mj.parts.get(i)
            if part is None:
                part = mj.parts[i] = MPart(i, None)
            part.owner = proc.pid
            part.taken = True
        return True

    def w_finish(self, proc):
        if not (proc.alive and proc.state == RUNNING):
            return False
        if CLOCK.now < proc.busy_until:
            return False            # a slow task: not done yet
        job, i, fun, args, kwargs = proc.current
        try:
            result = (True, fun(*args, **kwargs))
        except BaseException:
            result = (False, ExceptionInfo())
        proc.outbox.append(self.roundtrip((READY, (job, i, result, None))))
        proc.current = None
        proc.completed += 1
        mj = self.by_jobid.get(job)
        if mj is not None and i in mj.parts:
            mj.parts[i].finished = True
        if proc.maxtasks and proc.completed >= proc.maxtasks:
            proc.state = DRAINING
            proc.drain_since = CLOCK.now
        else:
            proc.state = IDLE
        return True

    def w_drain_exit(self, proc):
        if proc.alive and proc.may_drain_exit():
            proc.outbox.append((DEATH, (proc.pid, proc.drain_code)))
            proc.exit(proc.drain_code)
            return True
        return False

    def step_worker(self, proc):
        """one unit of autonomous progress for a worker"""
        if not proc.alive:
            return False
        if proc.state == RUNNING:
            return self.w_finish(proc)
        if proc.state == DRAINING:
            return self.w_drain_exit(proc)
        if proc.state == IDLE:
            return self.w_take(proc)
        return False

    def deliver(self, proc, direct=False):
        if not proc.outbox:
            return False
        msg = proc.outbox.pop(0)
        proc.last_delivered = msg
        self._late_ready_msg = False
        self.in_deliver = True
        try:
            self._deliver_msg(msg)
        finally:
            self.in_deliver = False
        self.finish_callback_scan()
        if self._late_ready_msg:
            proc.late_readies += 1
        return True

    def _deliver_msg(self, msg):
        self.note_delivery(msg)
        self._next_msg = [msg]
        rh = self.pool._result_handler
        if self.in_join or rh._state != bp.RUN:
            rh.on_state_change(msg)
            self._next_msg = []
        else:
            self.pool.handle_result_event()
            if self._next_msg:
                raise SimHarnessError('message not consumed by handle_event')
        self.after_delivery(msg)

    def poll(self, timeout):
        """ResultHandler.poll replacement."""
        if getattr(self, '_next_msg', None):
            return True, self._next_msg.pop(0)
        if not self.in_join and self.pool._state == bp.RUN:
            return False, None
        # inside join() (also the close()+join() a RestartFreqExceeded
        # triggers): the harness makes one unit of progress per call
        for proc in self.procs:
            if proc.outbox:
                msg = proc.outbox.pop(0)
                proc.last_delivered = msg
                self._late_ready_msg = False
                self.note_delivery(msg)
                if self._late_ready_msg:
                    proc.late_readies += 1
                return True, msg
        progressed = False
        for proc in list(self.procs):
            if self.step_worker(proc):
                progressed = True
        if progressed:
            CLOCK.now += 0.01
        else:
            CLOCK.now += timeout or 0.1
        return False, None

    def note_delivery(self, msg):
        kind, args = msg
        if kind == ACK:
            job, i, t, pid, _ = args
            orc = getattr(self, 'oracle', None)
            if orc is not None:
                orc.limiter_on_ack()
            mj = self.by_jobid.get(job)
            if mj is not None and i in mj.parts:
                mj.parts[i].ack_delivered = True
                mj.parts[i].ack_time = t
                mj.parts[i].ack_delivered_at = CLOCK.now
                if pid in self.reaps:
                    # consumed only after its sender had been reaped (zone of
                    # the open finding D7)
                    mj.late_ack = True
                    self.labels.add('ack_consumed_after_reap')
        elif kind == READY:
            job, i, res, _ = args
            if job not in self.pool._cache:
                self.late_ready = getattr(self, 'late_ready', 0) + 1
                self._late_ready_msg = True
            mj = self.by_jobid.get(job)
            if mj is not None and i in mj.parts:
                mj.parts[i].ready_delivered = True
                if i is not None:
                    if i < getattr(mj, 'max_ready_i', -1):
                        mj.out_of_order = True
                    mj.max_ready_i = max(i, getattr(mj, 'max_ready_i', -1))

    def after_delivery(self, msg):
        pass

    # -- submitting -----------------------------------------------------------
    def _mk_callbacks(self, mj):
        def cb(v):
            mj.cb['callback'] += 1
            mj.order.append('callback')
            if mj.cb['callback'] == 1:
                mj.success_at = (CLOCK.now, self.in_join)
                self._slots_seen_by_callback(mj)
            if mj.opts.get('cbscan') and mj.cb['callback'] == 1:
                self.scan_during_callback(mj)

        def ecb(v):
            mj.cb['error'] += 1
            mj.order.append('error')
            if mj.cb['error'] == 1 and not mj.cb['callback']:
                self._slots_seen_by_callback(mj)
            if mj.opts.get('cbscan') and mj.cb['error'] == 1 and \
                    not mj.cb['callback']:
                self.scan_during_callback(mj)

        def acb(pid, t):
            mj.cb['accept'] += 1
            mj.order.append('accept')
            mj.accept_args = (pid, t)

        def tcb(soft, timeout):
            mj.cb['timeout'].append((soft, timeout, len(self.signals)))
        return cb, ecb, acb, tcb

    def _slots_seen_by_callback(self, mj):
        """free slots as the job's own result callback sees them (a callback
        that submits the follow-up job needs the slot its job has just given
        back); only for callbacks the result handler runs on the job's READY"""
        sem = self.pool._putlock
        if sem is not None and self.in_deliver and self.config.get('putlocks'):
            mj.cb_slots = (sem._value, sem._initial_value)

    def scan_during_callback(self, mj):
        """The result callback of ``mj`` is running in the result handler (this
        thread).  Meanwhile time passes and the timeout scanner - a real second
        thread - does a scan.  If the job still looks unfinished to it, it
        blocks on the job's mutex until the callback returns."""
        if self.pool._timeout_handler is None or self.cb_thread is not None \
                or self.in_scan or self.in_join or not self.in_deliver:
            return      # only for callbacks run by the result handler on a READY
        saved = CLOCK.now
        CLOCK.now += mj.opts['cbscan']
        hit = self.scan_would_hit_imap_owner()
        CLOCK.now = saved
        if hit:
            self.exclude('limit-kill-of-imap-part-owner')
            return
        CLOCK.now += mj.opts['cbscan']
        self.labels.add('scan_during_callback')
        self.cb_job = mj
        self.cb_sigpos = len(self.signals)
        self.seq += 1
        self.scan_logpos = self.seq
        self.cb_tcb = len(mj.cb['timeout'])
        self.cb_error = []
        # jobs whose result had been consumed before this scan started
        self.cb_ready = set(
            j.idx for j in self.jobs
            if j.handle is not None and j.kind in ('apply', 'map', 'starmap')
            and j.handle.ready())

        def scan():
            try:
                self.obey_term = True
                self.pool._timeout_handler.handle_event()
            except BaseException as exc:      # reported by the oracle
                self.cb_error.append(exc)
        self.cb_thread = threading.Thread(target=scan, daemon=True)
        self.cb_thread.start()
        self.cb_thread.join(0.25)

    def finish_callback_scan(self):
        th, self.cb_thread = self.cb_thread, None
        if th is None:
            return
        th.join(10)
        if th.is_alive():
            raise SimHarnessError('scanner thread did not finish')
        if self.cb_error:
            raise self.cb_error[0]
        mj = self.cb_job
        part = mj.parts.get(None)
        owner = part.owner if part else None
        sigs = [s for s in self.signals[self.cb_sigpos:] if s[0] == owner]
        tcb = mj.cb['timeout'][self.cb_tcb:]
        orc = getattr(self, 'oracle', None)
        if not (sigs or tcb) and orc is not None and (
                orc.on('c05') or orc.on('c06')):
            # what this scan did to the other jobs is judged like any scan
            self.scan_sigpos = self.cb_sigpos
            self.scan_resolved = set([mj.idx]) | self.cb_ready
            orc.check_scan()
        if sigs or tcb:
            raise Violation(
                'C05/signal-after-result' if any(
                    s[1] != int(bp.SIG_SOFT_TIMEOUT) for s in sigs) or any(
                        not t[0] for t in tcb) else 'C06/soft-after-result',
                'job %d: its result had been consumed (its callback was running) '
                'when a scan sent signals %r / ran timeout callbacks %r' % (
                    mj.idx, [s[1] for s in sigs], [t[:2] for t in tcb]))

    def op_apply(self, spec, arg, opts, autofeed=False):
        r = self._op_apply(spec, arg, opts)
        if autofeed and r is None:
            self.op_feed()
        return r

    def op_map(self, spec, n, chunksize, star, autofeed=False):
        r = self._op_map(spec, n, chunksize, star)
        if autofeed and r is None:
            self.op_feed()
        return r

    def op_imap(self, spec, n, chunksize, ordered, autofeed=False):
        r = self._op_imap(spec, n, chunksize, ordered)
        if autofeed and r is None:
            self.op_feed()
        return r

    def _op_apply(self, spec, arg, opts):
        mj = MJob(len(self.jobs), 'apply')
        mj.opts = opts
        pool = self.pool
        unpicklable = opts.get('unpicklable')
        realarg = (lambda: None) if unpicklable else arg
        mj.expected = targets.sequential(spec, [arg])
        cb, ecb, acb, tcb = self._mk_callbacks(mj)
        if self.config.get('putlocks') and pool._state == bp.RUN:
            # would block the single thread: the model says no slot is free
            if pool._putlock._value <= 0:
                self.labels.add('submit_would_block')
                return 'noop'
        before = set(pool._cache)
        mj.submit_time = CLOCK.now
        try:
            h = pool.apply_async(
                targets.make(spec), (realarg,), {},
                callback=cb, error_callback=ecb, accept_callback=acb,
                timeout_callback=tcb, soft_timeout=opts.get('soft'),
                timeout=opts.get('hard'),
                lost_worker_timeout=opts.get('lost'))
        except Exception as exc:
            if unpicklable and not self.config.get('threads', True):
                # direct put failed in the caller's thread: the caller got the
                # exception instead of a handle
                mj.events['putfail_direct'] = True
                new = set(pool._cache) - before
                mj.jobid = next(iter(new), None)
                mj.slot = bool(self.config.get('putlocks'))
                self.jobs.append(mj)
                self.labels.add('putfail_direct')
                return
            raise
        if h is None:
            if pool._state == bp.RUN:
                raise Violation('submit-refused', 'apply_async returned None '
                                'on a running pool')
            self.labels.add('submit_after_close')
            return
        mj.handle = h
        mj.jobid = h._job
        mj.parts[None] = MPart(None, [0])
        mj.slot = bool(self.config.get('putlocks'))
        mj.lost_timeout = opts.get('lost') or self.config.get('lost') or \
            bp.LOST_WORKER_TIMEOUT
        if unpicklable:
            mj.unpicklable = True
        self.jobs.append(mj)
        self.by_jobid[mj.jobid] = mj
        if not self.config.get('threads', True):
            self.readback()
            mj.fed = True

    def _op_map(self, spec, n, chunksize, star):
        pool = self.pool
        if not self.config.get('threads', True):
            return 'excluded'   # nobody feeds the task queue without threads
        mj = MJob(len(self.jobs), 'starmap' if star else 'map')
        inputs = [(x, x + 1) for x in range(n)] if star else list(range(n))
        mj.expected = targets.sequential(spec, inputs, star)
        cb, ecb, _, _ = self._mk_callbacks(mj)
        poolsize = len(pool._pool)
        if chunksize is None and poolsize == 0:
            return 'noop'       # divmod by zero in the caller is out of scope
        if star:
            h = pool.starmap_async(targets.make(spec, True), inputs, chunksize,
                                   cb, ecb)
        else:
            h = pool.map_async(targets.make(spec), inputs, chunksize, cb, ecb)
        if h is None:
            self.labels.add('submit_after_close')
            return
        mj.handle, mj.jobid = h, h._job
        cs = h._chunksize
        mj.chunksize = cs
        if cs > 0:
            nparts = n // cs + bool(n % cs)
            for i in range(nparts):
                mj.parts[i] = MPart(i, list(range(i * cs, min(n, (i + 1) * cs))))
        mj.lost_timeout = h._lost_worker_timeout
        self.jobs.append(mj)
        self.by_jobid[mj.jobid] = mj

    def _op_imap(self, spec, n, chunksize, ordered):
        pool = self.pool
        if not self.config.get('threads', True):
            return 'excluded'   # nobody feeds the task queue without threads
        mj = MJob(len(self.jobs), 'imap' if ordered else 'imap_unordered')
        inputs = list(range(n))
        mj.expected = targets.sequential(spec, inputs)
        before = set(pool._cache)
        f = pool.imap if ordered else pool.imap_unordered
        r = f(targets.make(spec), inputs, chunksize)
        if r is None:
            self.labels.add('submit_after_close')
            return
        new = set(pool._cache) - before
        assert len(new) == 1
        mj.jobid = new.pop()
        mj.handle = pool._cache[mj.jobid]
        mj.user_iter = r
        mj.chunksize = chunksize
        nparts = n // chunksize + bool(n % chunksize)
        for i in range(nparts):
            mj.parts[i] = MPart(i, list(range(i * chunksize,
                                              min(n, (i + 1) * chunksize))))
        mj.nparts = nparts
        mj.lost_timeout = mj.handle._lost_worker_timeout
        self.jobs.append(mj)
        self.by_jobid[mj.jobid] = mj

    # -- the task feeder --------------------------------------------------------
    def op_feed(self, fault_at=None, interleave=False, many=False):
        """run the real TaskHandler.body() on the next queued request - or,
        with many=True, on every request queued so far in ONE invocation of the
        loop (state kept across iterations of that loop matters)"""
        pool = self.pool
        if not self.config.get('threads', True) and not self.in_join:
            # nobody consumes the task queue without the TaskHandler
            return 'noop'
        try:
            req = pool._taskqueue.get_nowait()
        except queue.Empty:
            return 'noop'
        th = pool._task_handler
        if req is None:
            th.tell_others()
            self.readback()
            self.feeder_done = True
            return
        q = queue.Queue()
        q.put(req)
        got_close = False
        while many:
            try:
                nxt = pool._taskqueue.get_nowait()
            except queue.Empty:
                break
            if nxt is None:
                got_close = True      # handled after this batch
                break
            q.put(nxt)
            self.labels.add('feed_batch')
        q.put(None)
        saved = (th.taskqueue, th.put, th.outqueue, th.pool)
        real_put = th.put
        counter = [0]
        fed_job = [None]

        def put(task):
            k = counter[0]
            counter[0] += 1
            if task is not None and fed_job[0] is None:
                fed_job[0] = task[1][0]
            if fault_at is not None and k == fault_at:
                mj = self.by_jobid.get(task[1][0])
                if mj is not None:
                    mj.events.setdefault('putfail', []).append(task[1][1])
                self.labels.add('putfail_injected')
                raise RuntimeError('injected put failure')
            try:
                real_put(task)
            except Exception:
                mj = self.by_jobid.get(task[1][0])
                if mj is not None:
                    mj.events.setdefault('putfail', []).append(task[1][1])
                self.labels.add('putfail_pickle')
                raise
            self.readback()
            if interleave:
                self.mini_progress()

        th.taskqueue, th.put, th.outqueue, th.pool = q, put, _Sink(), []
        try:
            th.body()
        finally:
            th.taskqueue, th.put, th.outqueue, th.pool = saved
        mj = self.by_jobid.get(fed_job[0])
        if mj is not None:
            mj.fed = True
        if got_close:
            th.tell_others()
            self.readback()
            self.feeder_done = True

    def drain_taskqueue(self):
        for _ in range(10000):
            if self.op_feed(many=True) == 'noop':
                return
        raise SimHarnessError('task queue does not drain')

    def mini_progress(self):
        """results arriving while the feeder is still putting tasks"""
        self.labels.add('interleaved_feed')
        for proc in self.alive_workers():
            if proc.state == IDLE and self.fifo:
                self.w_take(proc)
                self.w_finish(proc)
                while proc.outbox:
                    self.deliver(proc)
                break

    # -- supervision / time -----------------------------------------------------
    def op_tick(self):
        pool = self.pool
        if not (pool._worker_handler._state == bp.RUN and pool._state == bp.RUN):
            return 'noop'
        if not self.allowed('ack-after-reap'):
            # known finding D7: a death reaped before the victim's pending ACK
            # is consumed is never attributed; deliver those ACKs first
            for p in pool._pool:
                if not p.alive and any(m[0] == ACK for m in p.outbox):
                    self.exclude('death-reaped-before-ack')
                    while p.outbox:
                        self.deliver(p)
        if not self.allowed('imap-loss'):
            # zone of the open findings D4/D13: the death of a worker is noticed
            # while a result of an imap part it had finished is still in flight
            for p in pool._pool:
                if not p.alive and any(
                        m[0] != DEATH and getattr(self.by_jobid.get(m[1][0]),
                                                  'kind', '') in
                        ('imap', 'imap_unordered') for m in p.outbox):
                    self.exclude('imap-part-owner-dies')
                    while p.outbox:
                        self.deliver(p)
        if not self.allowed('tjob-result-in-flight'):
            # open finding D25: a worker stopped by terminate_job() is reaped
            # while the result of a job it had FINISHED before is still in
            # flight - that job is reported Terminated as well (the terminated
            # path has no grace period for results in the pipe)
            for p in pool._pool:
                if not p.alive and getattr(p, '_job_terminated', False) and \
                        any(m[0] == READY for m in p.outbox):
                    self.exclude('terminated-worker-result-in-flight')
                    while p.outbox:
                        self.deliver(p)
        before_pids = set(p.pid for p in pool._pool)
        self.tick_started = self.procs_started
        # exits in the order _join_exited_workers will reap them
        reaped_statuses = [w.exitcode for w in reversed(pool._pool)
                           if w.exitcode is not None]
        tick_now = CLOCK.now
        orc = getattr(self, 'oracle', None)
        predicted = orc.limiter_predict(reaped_statuses, tick_now) \
            if orc is not None else (None, None)
        try:
            pool.maintain_pool()
        except RestartFreqExceeded:
            self.restart_raised = True
            self.closed = True
            self.joined = True
            self.labels.add('restart_freq_exceeded')
            self.last_tick_raised = True
        else:
            self.last_tick_raised = False
        self.tick_info = {
            'now': tick_now, 'reaped_statuses': reaped_statuses,
            'predicted': predicted,
            'raised': self.last_tick_raised,
            'created': self.procs_started - self.tick_started}
        after_pids = set(p.pid for p in pool._pool)
        for pid in before_pids - after_pids:
            self.reaps[pid] = tick_now
            self.by_pid[pid].reaped = True
        # the supervision step at which a job's loss can first be noticed: its
        # worker reaped AND its ACK consumed (the pool learns from the ACK where
        # the job ran)
        for mj in self.jobs:
            for part in mj.parts.values():
                if part.ack_delivered and part.owner in self.reaps and \
                        getattr(part, 'detected_at', None) is None:
                    part.detected_at = tick_now
        self.last_tick = tick_now
        self.ticks = getattr(self, 'ticks', 0) + 1

    def op_scan(self, obey=True, status=-15):
        pool = self.pool
        if pool._timeout_handler is None or \
                pool._timeout_handler._state != bp.RUN:
            return 'noop'
        if self.scan_would_hit_imap_owner():
            return self.exclude('limit-kill-of-imap-part-owner')
        self.obey_term = obey
        self.term_status = status
        if CLOCK.hook is None:
            self.scan_resolved = set()
        self.scan_sigpos = len(self.signals)
        self.seq += 1
        self.scan_logpos = self.seq
        self.in_scan = True
        try:
            pool._timeout_handler.handle_event()
        finally:
            self.in_scan = False
        self.scans = getattr(self, 'scans', 0) + 1
        self.last_scan = CLOCK.now

    def op_scanrace(self, k, w, obey=True):
        """a timeout scan during which - at the k-th clock read, i.e. between
        two jobs of the scan - a running worker finishes and its messages are
        consumed by the result handler (the two handler threads racing)"""
        pool = self.pool
        if pool._timeout_handler is None or \
                pool._timeout_handler._state != bp.RUN:
            return 'noop'
        cands = [p for p in self.alive_workers() if p.state == RUNNING]

        def past_limit(p):
            mj = self.by_jobid.get(p.current[0])
            if mj is None or mj.kind != 'apply':
                return False
            lim = mj.opts.get('hard') or self.config.get('timeout')
            part = mj.parts[None]
            return bool(lim and part.ack_delivered and
                        CLOCK.now >= part.ack_time + lim)
        # the interesting race is the one on a job the scan is about to fail
        cands = [p for p in cands if past_limit(p)] or cands
        proc = self._pick(cands, w)
        if proc is None:
            return self.op_scan(obey)
        reads = [0]
        self.scan_resolved = set()

        def hook():
            reads[0] += 1
            if reads[0] == k + 1:
                CLOCK.hook = None
                if proc.alive and self.w_finish(proc):
                    for m in proc.outbox:      # every job these messages touch
                        mj = self.by_jobid.get(m[1][0]) if m[0] != DEATH else None
                        if mj is not None:
                            self.scan_resolved.add(mj.idx)
                    while proc.outbox:
                        self.deliver(proc)
                    self.labels.add('result_during_scan')
                CLOCK.hook = None
        CLOCK.hook = hook
        try:
            return self.op_scan(obey)
        finally:
            CLOCK.hook = None

    def scan_would_hit_imap_owner(self):
        """would a scan right now kill a worker that (having finished the job
        whose limit expired, its result still in flight) is running a part of an
        imap?  That is the zone of the open findings D4/D13."""
        if self.allowed('imap-loss'):
            return False
        for mj in self.jobs:
            if mj.kind != 'apply' or mj.handle is None or mj.handle.ready():
                continue
            part = mj.parts.get(None)
            lim = mj.opts.get('hard') or self.config.get('timeout')
            if not (lim and part and part.ack_delivered and
                    CLOCK.now >= part.ack_time + lim):
                continue
            proc = self.by_pid.get(part.owner)
            if proc is not None and proc.alive and proc.current is not None:
                cur = self.by_jobid.get(proc.current[0])
                if cur is not None and cur.kind in ('imap', 'imap_unordered'):
                    return True
        return False

    def op_adv(self, dt):
        CLOCK.now += dt

    # -- user calls ---------------------------------------------------------------
    def op_discard(self, k):
        cands = [mj for mj in self.jobs if mj.kind == 'apply' and mj.handle
                 and not mj.discarded]
        mj = self._pick(cands, k)
        if mj is None:
            return 'noop'
        mj.handle.discard()
        mj.discarded = True
        self.labels.add('discard')

    def op_tjob(self, k, sig=None):
        cands = [p for p in self.pool._pool if p.alive and p.state == RUNNING]
        proc = self._pick(cands, k)
        if proc is None:
            return 'noop'
        job = proc.current[0]
        mj = self.by_jobid.get(job)
        if mj is not None and mj.kind in ('imap', 'imap_unordered') and \
                not self.allowed('imap-loss'):
            return self.exclude('imap-part-owner-terminated')
        if mj is not None:
            mj.events.setdefault('terminated', []).append(proc.pid)
        self.pool.terminate_job(proc.pid, sig)
        self.labels.add('terminate_job')

    def op_grow(self, n):
        self.pool.grow(n)
        self.model_target += n
        self.labels.add('grow')

    def op_shrink(self, n):
        pool = self.pool
        # sound use only: no worker holds an undelivered ACK, and a slot is free
        if any(m[0] == ACK for p in self.procs for m in p.outbox) or \
                pool._putlock._value < n or self.model_target - n < 1:
            return 'excluded'
        inactive = [w for w in pool._pool if not pool._worker_active(w)
                    and not getattr(w, '_controlled_termination', False)]
        if len(inactive) < n:
            return 'excluded'
        pool.shrink(n)
        self.model_target -= n
        self.labels.add('shrink')

    def op_close(self):
        if self.closed:
            return 'noop'
        loss_pending = any(
            p.owner is not None and not p.ready_delivered and
            not self.by_pid[p.owner].alive
            for mj in self.jobs if mj.handle is not None and not mj.discarded
            and not mj.resolved() for p in mj.parts.values())
        if not self.allowed('close-unsupervised') and (
                self.config.get('maxtasks') or loss_pending or
                any(not p.alive for p in self.pool._pool) or
                any(p.term_pending for p in self.pool._pool)):
            return self.exclude('close-with-exits-pending')
        self.unfinished_at_close = self.unresolved_count()
        self.pool.close()
        self.closed = True
        self.labels.add('close')

    def op_closerace(self, where='start'):
        """close() called by the user while the supervisor is replacing a worker
        - inside start() of the replacement (listed, being forked), or
        where='create': while its process object is being built (the dead worker
        already removed from the list, the replacement not yet in it).  The
        feeder counts the workers to send exit sentinels to
        (TaskHandler.tell_others) when it gets its own sentinel; a feeder that
        gets it at that very moment must still end every worker."""
        pool = self.pool
        if self.closed or not self.config.get('threads', True) or not (
                pool._worker_handler._state == bp.RUN and pool._state == bp.RUN):
            return 'noop'
        loss_pending = any(
            p.owner is not None and not p.ready_delivered and
            not self.by_pid[p.owner].alive
            for mj in self.jobs if mj.handle is not None and not mj.discarded
            and not mj.resolved() for p in mj.parts.values())
        dead = [p for p in pool._pool if not p.alive]
        if not self.allowed('close-unsupervised') and (
                self.config.get('maxtasks') or loss_pending or
                any(p.term_pending for p in pool._pool) or
                any(p.outbox for p in dead)):
            return self.exclude('close-with-exits-pending')
        if not dead:
            return 'noop'
        fired = []
        gate = {'owner': threading.current_thread(),
                'blocked': threading.Event(), 'done': threading.Event(),
                'finished': threading.Event(), 'exc': None, 'thread': None}

        def user():
            try:
                pool.close()
            except BaseException as exc:    # re-raised in the harness thread
                gate['exc'] = exc
            finally:
                gate['finished'].set()

        def hook(proc):
            if fired:
                return
            fired.append(proc.pid)
            self.unfinished_at_close = self.unresolved_count()
            # the user's close() runs in a thread of its own: where it joins
            # the supervisor it has to wait until this pass is over.  The
            # feeder meanwhile works off whatever close() has queued so far
            self.supervisor_gate = gate
            gate['thread'] = t = threading.Thread(target=user, daemon=True)
            t.start()
            for _ in range(200000):
                if gate['blocked'].is_set() or gate['finished'].is_set():
                    break
                _real_time.sleep(0.0002)
            else:
                raise SimHarnessError('close() neither returned nor waited')
            self.closed = True
            self.drain_taskqueue()
            self.labels.add('close')
            self.labels.add('close_during_worker_start' if where == 'start'
                            else 'close_during_worker_create')
        if where == 'start':
            self.start_hook = hook
        else:
            self.create_hook = hook
        try:
            res = self.op_tick()
        finally:
            self.start_hook = None
            self.create_hook = None
            gate['done'].set()
            if gate['thread'] is not None:
                gate['thread'].join(60)
            self.supervisor_gate = None
        if gate['exc'] is not None:
            raise gate['exc']
        if fired:
            self.drain_taskqueue()
        if not fired:
            # nothing was started after all: an ordinary close
            return self.op_close()
        return res

    def op_join(self):
        if not self.closed or self.joined:
            return 'noop'
        self.in_join = True
        t0 = CLOCK.now
        try:
            self.pool.join()
        finally:
            self.in_join = False
        self.joined = True
        self.join_fake_s = CLOCK.now - t0
        for p in self.procs:
            if not p.alive:
                p.reaped = True
        self.labels.add('join')

    # -- worker level ops -----------------------------------------------------------
    def op_take(self, k):
        cands = [p for p in self.alive_workers()
                 if p.state == IDLE and not p.term_pending]
        proc = self._pick(cands, k)
        if proc is None or not self.fifo:
            return 'noop'
        self.w_take(proc)

    def op_finish(self, k):
        cands = [p for p in self.alive_workers() if p.state == RUNNING]
        proc = self._pick(cands, k)
        if proc is None:
            return 'noop'
        self.w_finish(proc)

    def op_deliver(self, k):
        cands = [p for p in self.procs if p.outbox]
        proc = self._pick(cands, k)
        if proc is None:
            return 'noop'
        self.deliver(proc)

    def op_dup(self, k):
        # duplicates/late copies only of messages whose job is already resolved
        # (that is what the statement speaks about)
        def resolved(msg):
            if msg is None or msg[0] == DEATH:
                return False
            mj = self.by_jobid.get(msg[1][0])
            return mj is not None and mj.handle is not None and mj.resolved()
        cands = [p for p in self.procs if resolved(p.last_delivered)]
        proc = self._pick(cands, k)
        if proc is None:
            return 'noop'
        self.labels.add('duplicate_msg')
        self._deliver_msg(self.roundtrip(proc.last_delivered))

    def op_die(self, k, status, running_only=False):
        cands = [p for p in self.alive_workers()
                 if p.state in ((RUNNING,) if running_only else (IDLE, RUNNING))]
        proc = self._pick(cands, k)
        if proc is None:
            return 'noop'
        if proc.state == RUNNING and not self.allowed('imap-loss'):
            mj = self.by_jobid.get(proc.current[0])
            if mj is not None and mj.kind in ('imap', 'imap_unordered'):
                return self.exclude('imap-part-owner-dies')
        if self.closed and not self.allowed('close-unsupervised'):
            # after close() nobody replaces workers (D10), but the shutdown path
            # still has to report the loss of a job that was running: allowed
            # when nothing is queued (nothing can strand) and the job's
            # lost-worker timeout is shorter than the result handler's 5 s
            # "all workers gone" patience
            mj = self.by_jobid.get(proc.current[0]) if proc.state == RUNNING \
                else None
            queued = any(not p.taken for j in self.jobs if j.handle is not None
                         for p in j.parts.values())
            if mj is None or mj.kind != 'apply' or queued or \
                    (mj.lost_timeout or 10) > 2.0 or \
                    any(m[0] == ACK for m in proc.outbox):
                return self.exclude('fault-after-close')
            self.labels.add('death_after_close')
        if proc.state == RUNNING:
            self.labels.add('death_running')
        else:
            self.labels.add('death_idle')
        proc.exit(status)

    def op_hterm(self, k, status=-15):
        cands = [p for p in self.alive_workers() if p.term_pending]
        proc = self._pick(cands, k)
        if proc is None:
            return 'noop'
        proc.exit(status)

    def op_wexit(self, k):
        cands = [p for p in self.alive_workers() if p.state == DRAINING]
        proc = self._pick(cands, k)
        if proc is None or not self.w_drain_exit(proc):
            return 'noop'
        self.labels.add('recycle_exit')

    # -- deterministic epilogue ----------------------------------------------------
    def op_quiesce(self):
        pool = self.pool
        if self.closed and not self.joined:
            # a closed pool is drained by join() itself (the shutdown path does
            # the supervision then), not by the harness beforehand
            self.op_join()
        big_advances = 0
        for rnd in range(3000):
            progressed = False
            while self.op_feed(many=True) != 'noop':
                progressed = True
            for proc in list(self.procs):
                while proc.outbox:
                    self.deliver(proc)
                    progressed = True
            for proc in list(self.procs):
                if proc.alive and proc.term_pending:
                    proc.exit(self.term_status)
                    progressed = True
                elif self.step_worker(proc):
                    progressed = True
            if progressed:
                continue
            # stable: let supervision and the scanner run, then move time on
            before = (len(self.procs), len(self.exits),
                      self.unresolved_count())
            self.op_tick()
            self.op_scan()
            if (len(self.procs), len(self.exits),
                    self.unresolved_count()) != before or self.fifo_runnable():
                continue
            if self.unresolved_count() == 0 and \
                    not any(p.alive and p.state == DRAINING for p in self.procs):
                break
            # nothing moves: let time pass (lost-worker timeouts, the workers'
            # 30 s result-consumption guard); give up after 3 idle advances
            state = (len(self.exits), self.unresolved_count(), len(self.fifo))
            if state == getattr(self, '_q_state', None):
                big_advances += 1
            else:
                big_advances = 0
            self._q_state = state
            if big_advances >= 3:
                break
            CLOCK.now += 31.0
        self.labels.add('quiesced')

    def fifo_runnable(self):
        return bool(self.fifo) and any(
            p.alive and p.state == IDLE and not p.term_pending
            for p in self.procs)

    def unresolved_count(self):
        return sum(1 for mj in self.jobs
                   if mj.handle is not None and not mj.discarded
                   and not mj.resolved())

    def op_work(self, k):
        """composite: worker k makes one step and its oldest message is delivered"""
        cands = [p for p in self.alive_workers()
                 if p.state in (IDLE, RUNNING) and not p.term_pending]
        proc = self._pick(cands, k)
        if proc is None:
            return 'noop'
        if proc.state == IDLE:
            if not self.w_take(proc):
                return 'noop'
        else:
            self.w_finish(proc)
        self.deliver(proc)

    def op_lastgasp(self, k, status):
        """composite: everything queued gets done, the pool is closed, then a
        worker that is still running an apply job dies - the loss has to be
        reported by the shutdown path (nobody strands: nothing is queued)"""
        if self.closed:
            return 'noop'
        self.drain_taskqueue()

        def victims():
            out = []
            for p in self.alive_workers():
                if p.state == RUNNING:
                    mj = self.by_jobid.get(p.current[0])
                    if mj is not None and mj.kind == 'apply' and \
                            (mj.lost_timeout or 10) <= 2.0:
                        out.append(p)
            return out
        vs = victims()
        proc = self._pick(vs, k)
        if proc is None:
            return 'noop'
        for _ in range(200):            # let the others finish what is queued
            if not self.fifo:
                break
            moved = False
            for p in self.alive_workers():
                if p is proc:
                    continue
                if p.state == RUNNING:
                    self.w_finish(p)
                    moved = True
                elif p.state == IDLE and self.fifo and self.fifo[0] is not None:
                    self.w_take(p)
                    moved = True
                while p.outbox:
                    self.deliver(p)
            if not moved:
                break
        while proc.outbox:
            self.deliver(proc)
        if self.fifo or self.op_close() is not None:
            return 'noop'
        return self.op_die(self.alive_workers().index(proc), status)

    def op_slow(self, k, secs):
        """the task worker k is running will take ``secs`` more (fake) seconds"""
        cands = [p for p in self.alive_workers() if p.state == RUNNING]

        def tail_of_shared_job(p):
            # runs a part of a multi-part job another worker already finished
            # a part of: the interesting straggler
            mj = self.by_jobid.get(p.current[0])
            return mj is not None and mj.multipart and any(
                q.ready_delivered and q.owner != p.pid for q in mj.parts.values())
        pref = [p for p in cands if tail_of_shared_job(p)]
        proc = self._pick(pref or cands, k)
        if proc is None:
            return 'noop'
        proc.busy_until = CLOCK.now + secs
        self.labels.add('slow_task')
        if pref:
            self.labels.add('slow_tail_of_shared_job')

    def op_drainlimit(self, k, secs):
        """composite: the task worker k is running will take ``secs`` more
        seconds, and the pool is closed and joined meanwhile.  On a pool without
        helper threads nobody but the result handler's shutdown loop enforces
        the time limits then."""
        if self.closed or self.op_slow(k, secs) == 'noop':
            return 'noop'
        if self.op_close() is not None:
            return 'noop'
        self.labels.add('drain_with_slow_task')
        return self.op_join()

    def op_straggle(self, k, secs, then_close=True):
        """composite: of the next two queued parts of one multi-part job, one is
        done and delivered by a worker, the other is accepted by a different
        worker and will take ``secs`` more seconds; then (optionally) close()"""
        if self.closed:
            return 'noop'
        self.drain_taskqueue()
        idle = [p for p in self.alive_workers()
                if p.state == IDLE and not p.term_pending]
        if len(idle) < 2 or len(self.fifo) < 2 or self.fifo[0] is None or \
                self.fifo[1] is None:
            return 'noop'
        j0, j1 = self.fifo[0][1][0], self.fifo[1][1][0]
        mj = self.by_jobid.get(j0)
        if j0 != j1 or mj is None or not mj.multipart:
            return 'noop'
        x = idle[k % len(idle)]
        y = [p for p in idle if p is not x][0]
        self.w_take(x)
        self.w_finish(x)
        while x.outbox:
            self.deliver(x)
        self.w_take(y)
        while y.outbox:
            self.deliver(y)
        y.busy_until = CLOCK.now + secs
        self.labels.add('straggler')
        if then_close:
            self.op_close()

    def op_parkrecycle(self, k, secs):
        """composite: of the next two queued parts of one multi-part job the
        *earlier* one is accepted by a worker and will take ``secs`` more
        seconds, the later one is done and delivered by another worker (for an
        ordered imap its result is parked until the earlier one arrives); if
        that worker has thereby used up its quota it leaves with the recycle
        status, is reaped, and the clock passes the lost-worker timeout"""
        if self.closed:
            return 'noop'
        self.drain_taskqueue()
        idle = [p for p in self.alive_workers()
                if p.state == IDLE and not p.term_pending]
        if len(idle) < 2 or len(self.fifo) < 2 or self.fifo[0] is None or \
                self.fifo[1] is None:
            return 'noop'
        j0, j1 = self.fifo[0][1][0], self.fifo[1][1][0]
        mj = self.by_jobid.get(j0)
        if j0 != j1 or mj is None or not mj.multipart:
            return 'noop'
        x = idle[k % len(idle)]
        y = [p for p in idle if p is not x][0]
        self.w_take(y)
        while y.outbox:
            self.deliver(y)
        y.busy_until = CLOCK.now + secs
        self.w_take(x)
        self.w_finish(x)
        while x.outbox:
            self.deliver(x)
        self.labels.add('later_part_first')
        if x.state == DRAINING and self.w_drain_exit(x):
            self.labels.add('recycle_exit')
            self.labels.add('parked_part_owner_recycled')
            res = self.op_tick()
            if res is not None:
                return res
            self.op_adv(min(secs - 0.5, (self.config.get('lost') or 10.0) + 0.5))
            return self.op_tick()

    def op_run(self, k):
        """composite: worker k takes a task and its ACK is delivered (the job
        is now running with a known accept time)"""
        cands = [p for p in self.alive_workers()
                 if p.state == IDLE and not p.term_pending]
        proc = self._pick(cands, k)
        if proc is None or not self.fifo or self.fifo[0] is None:
            return 'noop'
        self.w_take(proc)
        while proc.outbox:
            self.deliver(proc)

    # -- dispatch --------------------------------------------------------------------
    AFTER_CLOSE_OK = ('straggle', 'parkrecycle', 'slow', 'run', 'take', 'finish', 'deliver', 'work', 'feed', 'adv', 'dup',
                      'wexit', 'join', 'quiesce', 'close', 'apply', 'map', 'imap',
                      'tick', 'discard', 'die')

    # zones of findings that have since been repaired in /repo: open for good
    # (the code that stepped around them is kept for triage on older trees)
    REPAIRED_ZONES = ('imap-loss', 'ack-after-reap')

    def allowed(self, zone):
        if zone in self.REPAIRED_ZONES:
            return True
        allow = self.config.get('allow')
        if allow is None:      # triage tools only
            allow = _real_os.environ.get('SIM_ALLOW', '').split(',')
        return zone in allow

    def exclude(self, zone):
        self.excluded[zone] = self.excluded.get(zone, 0) + 1
        return 'excluded'

    def apply_op(self, op):
        name, args = op[0], op[1:]
        self.log.append(op)
        if self.closed and name not in self.AFTER_CLOSE_OK and \
                not self.allowed('close-unsupervised'):
            # supervision stops at close(): worker exits after it are never
            # replaced (known finding D10); keep generated histories out
            return self.exclude('fault-after-close')
        fn = getattr(self, 'op_' + name)
        return fn(*args)

    def teardown(self):
        pool = self.pool
        try:
            pool._terminate.cancel()
        except Exception:
            pass
        for q in (pool._inqueue, pool._outqueue):
            try:
                q.close()
            except Exception:
                pass
        pool._cache.clear()
        CURRENT[0] = None
