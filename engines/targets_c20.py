"""C20 helpers that must be importable by child processes (forked clients of a
manager, pool workers inside the manager's server) and by props/c20.py.

* ``norm`` / ``outcome``      value and exception descriptors (picklable, JSON-ish)
* ``surface``                 one user-level operation on an object (a proxy in a
                              client, or the local model object in the harness)
* ``run_cmd``                 one command of a client actor on its slot table
* ``hist_child``              forked client of part "hist" (command loop on a pipe)
* ``conc_script/conc_child``  concurrent client of part "conc"
* pool task functions         ``sq``, ``addmul``, ``div``
"""
import array
import copy
import gc
import operator
import pickle


def die_with_parent():
    """PR_SET_PDEATHSIG(SIGKILL): a server, client or pool worker never
    outlives the process that forked it, even if the harness is SIGKILLed."""
    try:
        import ctypes
        import signal
        ctypes.CDLL(None).prctl(1, int(signal.SIGKILL), 0, 0, 0)
    except Exception:
        pass


def orphan_watch():
    """Pool-worker initializer: exit when the forking process is gone.  (The
    death signal cannot be used: it fires when the forking *thread* ends, and
    the manager's server creates pools from short-lived request threads.)"""
    import os
    import threading
    import time
    ppid = os.getppid()

    def watch():
        while os.getppid() == ppid:
            time.sleep(1.0)
        os._exit(1)
    threading.Thread(target=watch, daemon=True).start()


_VIEWS = tuple(type(getattr({}, n)()) for n in ('keys', 'values', 'items'))
_SCALARS = (bool, int, float, str, bytes, type(None))


def norm(v, depth=0):
    """Type-sensitive, comparable, picklable description of a returned value.

    dict views are described as lists: they cannot cross a process boundary and
    the manager is documented to send them as lists (managers.py rebuild_as_list).
    One-shot iterators (``reversed(list)`` travels as an iterator over a copy)
    are described by their contents."""
    if depth > 6:
        return ['deep', repr(v)[:80]]
    if isinstance(v, _SCALARS):
        return [type(v).__name__, v]
    if isinstance(v, array.array):
        return ['array', v.typecode, v.tolist()]
    if isinstance(v, _VIEWS):
        return ['list', [norm(x, depth + 1) for x in v]]
    if isinstance(v, (list, tuple)):
        return [type(v).__name__, [norm(x, depth + 1) for x in v]]
    if isinstance(v, dict):
        return ['dict', [[norm(k, depth + 1), norm(x, depth + 1)]
                         for k, x in v.items()]]
    if isinstance(v, slice):
        return ['slice', [v.start, v.stop, v.step]]
    tname = '%s.%s' % (type(v).__module__, type(v).__qualname__)
    if tname in ('builtins.list_reverseiterator', 'builtins.list_iterator'):
        return ['iterator', [norm(x, depth + 1) for x in v]]
    if tname == 'billiard.managers.Namespace':
        return ['Namespace', norm(dict(v.__dict__), depth + 1)]
    if tname == 'billiard.managers.Value':
        return ['Value', norm(v._value, depth + 1)]
    return ['object', tname]


def outcome(fn, *args):
    """Run ``fn(*args)``; describe what came back or what was raised."""
    try:
        r = fn(*args)
    except Exception as exc:
        d = ['exc', '%s.%s' % (type(exc).__module__, type(exc).__qualname__),
             norm(exc.args)]
        exc = None
        return d
    d = ['ret', norm(r)]
    r = None
    return d


def _with(obj):
    with obj as r:
        pass
    return r


def _setprop(obj, name, v):
    setattr(obj, name, v)


def _setitem(obj, k, v):
    obj[k] = v


def _delitem(obj, k):
    del obj[k]


def surface(obj, call):
    """Perform one user-level operation.  ``call`` = [kind, ...].  Returns
    (descriptor, replacement) where replacement is the object to keep in the
    slot afterwards for the in-place operators (else None)."""
    kind = call[0]
    if kind == 'm':                       # obj.name(*args, **kwargs)
        name, args, kwargs = call[1], call[2], call[3]
        return outcome(lambda: getattr(obj, name)(*args, **kwargs)), None
    if kind == 'len':
        return outcome(len, obj), None
    if kind == 'contains':
        return outcome(operator.contains, obj, call[1]), None
    if kind == 'getitem':
        return outcome(operator.getitem, obj, call[1]), None
    if kind == 'setitem':
        return outcome(_setitem, obj, call[1], call[2]), None
    if kind == 'delitem':
        return outcome(_delitem, obj, call[1]), None
    if kind == 'add':
        return outcome(operator.add, obj, call[1]), None
    if kind == 'mul':
        return outcome(operator.mul, obj, call[1]), None
    if kind == 'rmul':
        return outcome(operator.mul, call[1], obj), None
    if kind in ('iadd', 'imul'):
        fn = operator.iadd if kind == 'iadd' else operator.imul
        box = []

        def inplace():
            r = fn(obj, call[1])
            box.append(r)
            return 'same-object' if r is obj else ['other', norm(r)]
        d = outcome(inplace)
        return d, (box[0] if box else None)
    if kind == 'reversed':
        return outcome(lambda: list(reversed(obj))), None
    if kind == 'iter':
        return outcome(lambda: [x for x in obj]), None
    if kind == 'getattr':
        return outcome(getattr, obj, call[1]), None
    if kind == 'setattr':
        return outcome(_setprop, obj, call[1], call[2]), None
    if kind == 'delattr':
        return outcome(delattr, obj, call[1]), None
    if kind == 'str':
        return outcome(str, obj), None
    if kind == 'with':
        return outcome(_with, obj), None
    if kind == 'deepcopy':
        return outcome(copy.deepcopy, obj), None
    raise ValueError('unknown surface call %r' % (kind,))


def run_cmd(slots, cmd):
    """One command of a client on its own slot table (list of proxies).
    Nothing but ``slots`` may keep a proxy alive once this returns."""
    kind = cmd[0]
    if kind == 'op':
        d, repl = surface(slots[cmd[1]], cmd[2])
        if repl is not None:
            slots[cmd[1]] = repl
        repl = None
        return d
    if kind == 'copy':                    # pickle round trip inside this client
        return outcome(lambda: slots.append(
            pickle.loads(pickle.dumps(slots[cmd[1]]))))
    if kind == 'dumps':
        try:
            return ['bytes', pickle.dumps(slots[cmd[1]])]
        except Exception as exc:
            return ['exc', type(exc).__name__, norm(exc.args)]
    if kind == 'loads':
        return outcome(lambda: slots.append(pickle.loads(cmd[1])))
    if kind == 'drop':
        del slots[cmd[1]]
        gc.collect()
        return ['ret', ['NoneType', None]]
    if kind == 'clear':
        del slots[:]
        gc.collect()
        return ['ret', ['NoneType', None]]
    raise ValueError('unknown command %r' % (kind,))


# ---------------------------------------------------------------------------
# forked client of part "hist"
# ---------------------------------------------------------------------------

def hist_child(conn, state):
    """Runs in a forked billiard Process.  ``state`` is the harness's state
    object (inherited copy): this child keeps copies of the *main* client's
    proxies and releases every other inherited proxy, so that the model knows
    exactly what it holds; then it serves commands until 'exit'."""
    die_with_parent()
    slots = list(state.tables[0])
    for t in state.tables:
        del t[:]
    for c in state.inherited_conns:
        try:
            c.close()
        except Exception:
            pass
    state = None
    gc.collect()
    conn.send('ready')
    while True:
        cmd = conn.recv()
        if cmd[0] == 'exit':
            if cmd[1]:                    # explicit release before exiting
                del slots[:]
                gc.collect()
            conn.send(['ret', ['NoneType', None]])
            break                         # else: released by exit finalizers
        res = run_cmd(slots, cmd)
        cmd = None
        conn.send(res)
        res = None
    conn.close()


# ---------------------------------------------------------------------------
# concurrent clients of part "conc"
# ---------------------------------------------------------------------------

def conc_script(px, cid, m, kinds, lockstyle):
    """``m`` rounds of the selected single operations on the shared proxies
    ``px`` (dict name -> proxy); returns what this client observed."""
    obs = {'pop': [], 'dpop': [], 'sd': [], 'errors': []}
    try:
        for j in range(m):
            for kind in kinds:
                if kind == 'append':
                    px['L'].append([cid, j])
                elif kind == 'setitem':
                    px['D']['%d:%d' % (cid, j)] = j
                elif kind == 'put':
                    px['Q'].put([cid, j])
                elif kind == 'rmw':
                    if lockstyle:
                        with px['K']:
                            px['V'].value = px['V'].value + 1
                    else:
                        px['K'].acquire()
                        try:
                            px['V'].set(px['V'].get() + 1)
                        finally:
                            px['K'].release()
                elif kind == 'pop':
                    obs['pop'].append(px['S'].pop())
                elif kind == 'dpop':
                    try:
                        obs['dpop'].append([j, px['P'].pop(j)])
                    except KeyError:
                        pass
                elif kind == 'setdefault':
                    obs['sd'].append([j, px['W'].setdefault(j, cid)])
    except Exception as exc:
        obs['errors'].append(['exc', '%s.%s' % (type(exc).__module__,
                                                type(exc).__qualname__),
                              repr(exc.args)[:300]])
    return obs


def conc_child(conn, px, cid, m, kinds, lockstyle):
    die_with_parent()
    conn.send('ready')
    conn.recv()                           # 'go'
    obs = conc_script(px, cid, m, kinds, lockstyle)
    conn.send(obs)
    conn.close()


# ---------------------------------------------------------------------------
# task functions for Pool referents (run in workers of the manager's server)
# ---------------------------------------------------------------------------

def sq(x):
    return x * x


def addmul(a, b):
    return [a + b, a * b]


def div(x):
    return 360 // x                      # x == 0 -> ZeroDivisionError


FUNCS = {'sq': sq, 'div': div, 'abs': abs}
