"""E3 child: runs one scenario on a real billiard.pool.Pool and writes observations.

usage: python -m engines.realpool_child <scenario.json> <out.json> <tmpdir>

scenario = {'pool': {...Pool kwargs subset..., 'start': 'fork'}, 'steps': [...],
            'watch': seconds}
steps (executed in order by the main thread):
  ['apply', tag, script, opts]           opts: soft, hard, lost
  ['map', tag, script, n, chunksize, kind]   kind: map|starmap|imap|imap_unordered
  ['sleep', d]   ['wait_mark', name, timeout]   ['wait', tag, timeout]
  ['wait_all', timeout]  ['drain', tag, timeout]   (consume an imap iterator)
  ['close'] ['join'] ['terminate'] ['terminate_job', tag] ['sigterm_worker', tag]
  ['kill_idle', sig] ['wait_short', size, timeout] ['snapshot', name] ['del_pool'] ['apply_sync', tag, script]
  ['map_sync', tag, script, n, chunksize, kind]
  ['imap_lazy', tag, script, n1, stall, n2, kind]
  ['maintain'] ['pump', seconds] ['drive', seconds]   (threads=False pools)
"""
import faulthandler
import functools
import gc
import json
import os
import signal
import sys
import threading
import time


def main():
    scen = json.load(open(sys.argv[1]))
    out_path, tmpdir = sys.argv[2], sys.argv[3]
    watch = scen.get('watch', 60)
    stacks = open(os.path.join(tmpdir, 'stacks.txt'), 'w')
    faulthandler.dump_traceback_later(max(1, watch - 4), file=stacks, exit=False)

    import billiard
    import billiard.pool as bp
    from engines import rtargets

    import logging
    _h = logging.StreamHandler(sys.stderr)
    _h.setLevel(logging.ERROR)
    logging.getLogger('multiprocessing').addHandler(_h)
    logging.getLogger('multiprocessing').propagate = False

    obs = {'steps': [], 'jobs': {}, 'ups': [], 'downs': [], 'snapshots': {},
           't0': time.monotonic(), 'pid': os.getpid()}
    pc = scen['pool']

    started = [False]
    evpath = os.path.join(tmpdir, 'events.log')

    def event(*fields):
        # survives a watchdog kill of this process (out.json does not)
        rtargets._append(evpath, ' '.join(str(f) for f in fields))

    def on_up(w):
        obs['ups'].append([w.pid, time.monotonic()])
        event('up', w.pid, '%.6f' % time.monotonic())
        if started[0] and pc.get('slow_up'):
            time.sleep(pc['slow_up'])     # a slow on_process_up callback

    def on_down(w):
        obs['downs'].append([w.pid, w.exitcode, time.monotonic()])

    ctx = billiard.get_context(pc.get('start', 'fork'))
    pool = bp.Pool(
        processes=pc['procs'], maxtasksperchild=pc.get('maxtasks'),
        timeout=pc.get('timeout'), soft_timeout=pc.get('soft'),
        lost_worker_timeout=pc.get('lost'), threads=pc.get('threads', True),
        putlocks=pc.get('putlocks', False), context=ctx,
        initializer=rtargets.initializer, initargs=(tmpdir,),
        on_process_up=on_up, on_process_down=on_down,
        on_process_exit=functools.partial(rtargets.on_exit, tmpdir),
        max_restarts=pc.get('max_restarts'), enable_timeouts=True,
    )
    started[0] = True
    starts = []
    if pc.get('slow_start'):
        # replacement workers take a while to fork (a busy parent, a large
        # process): the window between "listed in the pool" and "has a process"
        base = pool._Process

        class SlowStart(base):
            def start(self):
                starts.append(time.monotonic())
                event('starting', len(starts), '%.6f' % time.monotonic())
                time.sleep(pc['slow_start'])
                return super().start()
        pool._Process = SlowStart
    if pc.get('slow_create'):
        # replacement workers take a while to build (a loaded machine): the
        # window in which the dead worker has left the list and the new one is
        # not yet in it
        base_create = pool._create_worker_process

        def slow_create(i):
            event('creating', i, '%.6f' % time.monotonic())
            time.sleep(pc['slow_create'])
            return base_create(i)
        pool._create_worker_process = slow_create
    handles = {}
    killed = set()
    state = {'pool': pool}

    def mk_callbacks(tag):
        rec = obs['jobs'].setdefault(tag, {'cb': [], 'tcb': []})

        def cb(v):
            rec['cb'].append(['ok', time.monotonic()])

        def ecb(v):
            rec['cb'].append(['err', time.monotonic()])

        def acb(pid, t):
            rec['accept'] = [pid, t, time.monotonic()]

        def tcb(soft, timeout):
            rec['tcb'].append([soft, timeout, time.monotonic()])
        return cb, ecb, acb, tcb

    def describe(v):
        try:
            json.dumps(v)
            return v
        except TypeError:
            return repr(v)

    def outcome_of_exc(exc):
        inner = getattr(exc, 'exc', exc) \
            if type(exc).__name__ == 'ExceptionWithTraceback' else exc
        cause = getattr(inner, '__cause__', None)
        return {'ok': False, 'type': type(inner).__name__,
                'args': repr(list(inner.args)),
                'wrapped': type(exc).__name__,
                'cause': type(cause).__name__ if cause is not None else None,
                'cause_text': str(cause)[-400:] if cause is not None else ''}

    def kill_pid(pid, sig):
        try:
            os.kill(pid, sig)
            return True
        except OSError:
            return False

    for step in scen['steps']:
        op = step[0]
        rec = {'op': step[:2] if op not in ('sleep',) else step,
               't_start': time.monotonic()}
        event('step', op, '%.6f' % rec['t_start'])
        try:
            pool = state['pool']
            if op == 'apply':
                _, tag, script, opts = step
                cb, ecb, acb, tcb = mk_callbacks(tag)
                h = pool.apply_async(
                    rtargets.rtask, (script, tmpdir, tag), {},
                    callback=cb, error_callback=ecb, accept_callback=acb,
                    timeout_callback=tcb, soft_timeout=opts.get('soft'),
                    timeout=opts.get('hard'),
                    lost_worker_timeout=opts.get('lost'))
                handles[tag] = ('apply', h)
                obs['jobs'][tag]['submitted'] = h is not None
                obs['jobs'][tag]['t_submit'] = time.monotonic()
            elif op == 'map':
                _, tag, script, n, cs, kind = step
                cb, ecb, _, _ = mk_callbacks(tag)
                if kind == 'map':
                    h = pool.map_async(functools.partial(
                        rtargets.rtask_map, script, tmpdir, tag), list(range(n)),
                        cs, cb, ecb)
                elif kind == 'starmap':
                    h = pool.starmap_async(functools.partial(
                        rtargets.rtask_star, script, tmpdir, tag),
                        [(i, i + 100) for i in range(n)], cs, cb, ecb)
                elif kind == 'imap':
                    h = pool.imap(functools.partial(
                        rtargets.rtask_map, script, tmpdir, tag), list(range(n)),
                        cs or 1)
                else:
                    h = pool.imap_unordered(functools.partial(
                        rtargets.rtask_map, script, tmpdir, tag), list(range(n)),
                        cs or 1)
                if kind in ('imap', 'imap_unordered') and hasattr(h, '_ack'):
                    # witness when the parent consumed each part's ACK
                    def _wrap(h=h, tag=tag, orig=h._ack):
                        def _ack(i, time_accepted, pid, *a):
                            obs['jobs'][tag].setdefault('part_acks', []).append(
                                [i, pid, time.monotonic()])
                            return orig(i, time_accepted, pid, *a)
                        return _ack
                    h._ack = _wrap()
                handles[tag] = (kind, h)
                obs['jobs'][tag]['submitted'] = h is not None
                obs['jobs'][tag]['t_submit'] = time.monotonic()
            elif op == 'imap_lazy':
                # an imap over a lazily produced input: the generator hands out
                # n1 items, stalls for `stall` seconds (the task feeder thread
                # sits in it meanwhile), then hands out n2 more
                _, tag, script, n1, stall, n2, kind = step
                mk_callbacks(tag)

                def lazy(n1=n1, stall=stall, n2=n2):
                    for i in range(n1):
                        yield i
                    event('lazy_stall', tag, '%.6f' % time.monotonic())
                    time.sleep(stall)
                    for i in range(n1, n1 + n2):
                        yield i
                fn = functools.partial(rtargets.rtask_map, script, tmpdir, tag)
                h = (pool.imap if kind == 'imap' else pool.imap_unordered)(
                    fn, lazy(), 1)
                handles[tag] = (kind, h)
                obs['jobs'][tag]['submitted'] = h is not None
                obs['jobs'][tag]['t_submit'] = time.monotonic()
            elif op == 'apply_sync':
                _, tag, script = step
                try:
                    v = pool.apply(rtargets.rtask, (script, tmpdir, tag))
                    obs['jobs'][tag] = {'sync': {'ok': True, 'value': describe(v)}}
                except BaseException as exc:
                    obs['jobs'][tag] = {'sync': outcome_of_exc(exc)}
            elif op == 'map_sync':
                _, tag, script, n, cs, kind = step
                try:
                    if kind == 'map':
                        v = pool.map(functools.partial(
                            rtargets.rtask_map, script, tmpdir, tag),
                            list(range(n)), cs)
                    else:
                        v = pool.starmap(functools.partial(
                            rtargets.rtask_star, script, tmpdir, tag),
                            [(i, i + 100) for i in range(n)], cs)
                    obs['jobs'][tag] = {'sync': {'ok': True, 'value': describe(v)}}
                except BaseException as exc:
                    obs['jobs'][tag] = {'sync': outcome_of_exc(exc)}
            elif op == 'sleep':
                time.sleep(step[1])
            elif op == 'wait_mark':
                path = os.path.join(tmpdir, 'mark-%s' % step[1])
                end = time.monotonic() + step[2]
                while not os.path.exists(path) and time.monotonic() < end:
                    time.sleep(0.01)
                rec['found'] = os.path.exists(path)
            elif op == 'wait':
                kind, h = handles[step[1]]
                if h is not None and kind in ('apply', 'map', 'starmap'):
                    h.wait(step[2])
                    rec['ready'] = h.ready()
            elif op == 'wait_all':
                end = time.monotonic() + step[1]
                for tag, (kind, h) in handles.items():
                    if h is not None and kind in ('apply', 'map', 'starmap'):
                        h.wait(max(0, end - time.monotonic()))
            elif op == 'drain':
                kind, h = handles[step[1]]
                items = []
                end = time.monotonic() + step[2]
                if h is not None:
                    it = iter(h)
                    while True:
                        try:
                            if hasattr(it, 'next'):
                                v = it.next(timeout=max(0.01,
                                                        end - time.monotonic()))
                            else:
                                v = next(it)
                            items.append(['ok', describe(v), time.monotonic()])
                        except StopIteration:
                            items.append(['stop', None, time.monotonic()])
                            break
                        except bp.TimeoutError:
                            items.append(['timeout', None, time.monotonic()])
                            break
                        except Exception as exc:
                            ei = exc.args[0] if exc.args else None
                            if hasattr(ei, 'exception'):
                                d = outcome_of_exc(ei.exception)
                                d['einfo_type'] = ei.type.__name__
                            else:
                                d = outcome_of_exc(exc)
                            items.append(['err', d, time.monotonic()])
                            if not hasattr(it, 'next'):
                                break       # a generator ends at its first error
                obs['jobs'].setdefault(step[1], {})['items'] = items
            elif op == 'close':
                pool.close()
            elif op == 'join':
                pool.join()
            elif op == 'terminate':
                pool.terminate()
            elif op == 'terminate_job':
                kind, h = handles[step[1]]
                pid = h._worker_pid
                rec['pid'] = pid
                if pid:
                    pool.terminate_job(pid, step[2] if len(step) > 2 else None)
            elif op == 'sigterm_worker':
                kind, h = handles[step[1]]
                pid = h._worker_pid
                rec['pid'] = pid
                rec['t_signal'] = time.monotonic()
                if pid:
                    rec['sent'] = kill_pid(pid, signal.SIGTERM)
            elif op == 'kill_idle_n':
                busy = set()
                for tag, (kind, h) in handles.items():
                    if h is not None and not h.ready():
                        busy.update(h.worker_pids())
                idle = [w.pid for w in pool._pool if w.pid not in busy]
                rec['pids'] = idle[:step[1]]
                for pid in idle[:step[1]]:
                    kill_pid(pid, step[2])
            elif op == 'kill_idle':
                busy = set()
                for tag, (kind, h) in handles.items():
                    if h is not None:
                        busy.update(h.worker_pids())
                idle = [w.pid for w in pool._pool if w.pid not in busy]
                rec['pid'] = idle[0] if idle else None
                if idle:
                    killed.add(idle[0])
                    kill_pid(idle[0], step[1])
            elif op == 'wait_short':
                # until the supervisor has taken a dead worker off the list
                end = time.monotonic() + step[2]
                while len(pool._pool) >= step[1] and time.monotonic() < end:
                    time.sleep(0.002)
                rec['size'] = len(pool._pool)
            elif op == 'wait_starts':
                end = time.monotonic() + step[2]
                while len(starts) < step[1] and time.monotonic() < end:
                    time.sleep(0.005)
                rec['starts'] = len(starts)
            elif op == 'wait_ups':
                # until k workers have been started since the pool was built
                end = time.monotonic() + step[2]
                while len(obs['ups']) < pc['procs'] + step[1] and \
                        time.monotonic() < end:
                    time.sleep(0.005)
                rec['ups'] = len(obs['ups']) - pc['procs']
            elif op == 'maintain':
                # one supervision pass, by hand (pools without helper threads)
                pool._maintain_pool()
            elif op == 'pump':
                # the result handler's work, by hand: consume what is there
                n = 0
                end = time.monotonic() + step[1]
                while time.monotonic() < end:
                    if not pool._outqueue._reader.poll(0.05):
                        break
                    pool.handle_result_event()
                    n += 1
                rec['consumed'] = n
            elif op == 'drive':
                # supervision passes and result consumption until every handle
                # is ready (or the time is up)
                end = time.monotonic() + step[1]
                while time.monotonic() < end:
                    pool._maintain_pool()
                    while pool._outqueue._reader.poll(0.02):
                        pool.handle_result_event()
                    if all(h is None or h.ready() for k, h in handles.values()
                           if k in ('apply', 'map', 'starmap')):
                        break
                    time.sleep(0.05)
            elif op == 'wait_size':
                end = time.monotonic() + step[2]
                while time.monotonic() < end:
                    ws = list(pool._pool)
                    if len(ws) == step[1] and all(w._is_alive() for w in ws) \
                            and not killed & {w.pid for w in ws}:
                        break
                    time.sleep(0.05)
                rec['size'] = len(pool._pool)
            elif op == 'snapshot':
                obs['snapshots'][step[1]] = {
                    't': time.monotonic(),
                    'pids': [w.pid for w in pool._pool],
                    'indices': [w.index for w in pool._pool],
                    'processes': pool._processes,
                    'putlock': [pool._putlock._value,
                                pool._putlock._initial_value],
                    'cache': len(pool._cache),
                }
            elif op == 'del_pool':
                state['pool'] = None
                pool = None
                gc.collect()
            else:
                raise AssertionError('unknown step %r' % (step,))
        except BaseException as exc:
            rec['raised'] = '%s: %r' % (type(exc).__name__, exc)
        rec['t_end'] = time.monotonic()
        obs['steps'].append(rec)

    # final observations
    for tag, (kind, h) in handles.items():
        rec = obs['jobs'].setdefault(tag, {})
        rec['kind'] = kind
        if h is None:
            rec['handle'] = None
            continue
        if kind in ('apply', 'map', 'starmap'):
            rec['ready'] = h.ready()
            rec['worker_pid'] = describe(h._worker_pid)
            if h.ready():
                if h._success:
                    rec['outcome'] = {'ok': True, 'value': describe(h._value)}
                else:
                    try:
                        h.get(0)
                    except BaseException as exc:
                        rec['outcome'] = outcome_of_exc(exc)
                        rec['outcome']['einfo_type'] = h._value.type.__name__
    time.sleep(scen.get('settle', 0))
    import psutil
    me = psutil.Process()
    kids = []
    for c in me.children(recursive=True):
        try:
            kids.append([c.pid, c.status(), ' '.join(c.cmdline())[:80]])
        except psutil.Error:
            pass
    obs['children_alive'] = kids
    obs['threads_alive'] = [t.name for t in threading.enumerate()
                            if t is not threading.main_thread() and t.is_alive()]
    p = state['pool']
    if p is not None:
        obs['handlers_alive'] = {
            'supervisor': p._worker_handler.is_alive(),
            'task': p._task_handler.is_alive(),
            'result': p._result_handler.is_alive(),
            'timeout': bool(p._timeout_handler and p._timeout_handler.is_alive()),
        }
        obs['final_pool_pids'] = [w.pid for w in p._pool]
    obs['t_end'] = time.monotonic()
    faulthandler.cancel_dump_traceback_later()
    with open(out_path, 'w') as f:
        json.dump(obs, f)
    sys.stdout.flush()
    os._exit(0)       # do not run pool finalizers: what they do is not under test


if __name__ == '__main__':
    main()
