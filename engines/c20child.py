"""child side of the C20 'handoff' part (kept free of heavy imports: spawn and
forkserver children import this module by name)."""


def handoff_child(px, v, conn):
    try:
        conn.send(('ready', None))
        if not conn.poll(90):
            return
        conn.recv()                       # parent says: go on
        px.append(v)
        got = list(px)
        conn.send(('ok', got))
        if conn.poll(90):
            conn.recv()                   # parent says: you may leave
    except BaseException as exc:          # noqa - reported to the parent
        try:
            conn.send(('err', '%s: %s' % (type(exc).__name__, str(exc)[-400:])))
        except Exception:
            pass
    finally:
        conn.close()
