"""Module-level targets for C17 part (b): parties contending on a real billiard
Lock / RLock / Semaphore / BoundedSemaphore, with a holder witness kept in a
file-backed shared mapping that owes nothing to billiard.

Board layout (C ints): [0] go flag; party i owns 8 ints at 8 + 8*i:
  ver        odd while the party is inside the primitive, even otherwise
             (written only by its owner: two identical collects of all ``ver``
             words are an atomic snapshot)
  ready, iters_done, viol, contended, maxin, status, observations
"""
import mmap
import os
import threading
import time

ST_INIT, ST_DONE, ST_TIMEOUT, ST_RAISED = 0, 1, 2, 3
_W = 8
_VER, _READY, _ITERS, _VIOL, _CONT, _MAXIN, _STATUS, _OBS = range(8)


class Board:
    def __init__(self, mm, parties):
        self.mm = mm
        self.parties = parties
        self.v = memoryview(mm).cast('i')

    @classmethod
    def create(cls, path, parties):
        size = 4 * _W * (parties + 1)
        with open(path, 'wb') as f:
            f.write(b'\0' * size)
        return cls.open(path, parties)

    @classmethod
    def open(cls, path, parties):
        fd = os.open(path, os.O_RDWR)
        try:
            mm = mmap.mmap(fd, 4 * _W * (parties + 1))
        finally:
            os.close(fd)
        return cls(mm, parties)

    def close(self):
        self.v.release()
        self.mm.close()

    def idx(self, i, field):
        return _W + _W * i + field

    def all_ready(self):
        return all(self.v[self.idx(i, _READY)] for i in range(self.parties))

    def go(self):
        self.v[0] = 1

    def snapshot_inside(self, tries=20):
        """number of parties inside, from an atomic snapshot; None if the
        board kept changing"""
        v = self.v
        ids = [self.idx(i, _VER) for i in range(self.parties)]
        a = [v[k] for k in ids]
        for _ in range(tries):
            b = [v[k] for k in ids]
            if a == b:
                return sum(x & 1 for x in a)
            a = b
        return None

    def rows(self):
        out = []
        for i in range(self.parties):
            g = lambda f: self.v[self.idx(i, f)]   # noqa
            out.append({'iters': g(_ITERS), 'viol': g(_VIOL),
                        'contended': g(_CONT), 'maxin': g(_MAXIN),
                        'status': g(_STATUS), 'obs': g(_OBS)})
        return out


def _party(board, prim, me, limit, iters, depth, hold):
    v = board.v
    put = lambda f, x: v.__setitem__(board.idx(me, f), x)   # noqa
    ver = viol = cont = maxin = obs = 0
    put(_READY, 1)
    deadline = time.monotonic() + 90
    while not v[0]:
        if time.monotonic() > deadline:
            put(_STATUS, ST_TIMEOUT)
            return
        time.sleep(0.0005)
    status = ST_DONE
    try:
        for it in range(iters):
            if not prim.acquire(False):
                cont += 1
                if not prim.acquire(True, 60):
                    status = ST_TIMEOUT
                    break
            for _ in range(depth - 1):
                if not prim.acquire(True, 30):   # re-entry must not block
                    status = ST_TIMEOUT
                    break
            if status != ST_DONE:
                break
            ver += 1
            put(_VER, ver)

            def look():
                nonlocal viol, maxin, obs
                inside = board.snapshot_inside()
                if inside is not None:
                    obs += 1
                    if inside > maxin:
                        maxin = inside
                    if inside > limit:
                        viol += 1
            look()
            for _ in range(hold):
                pass
            if hold >= 100 and it % 8 == 0:
                time.sleep(0)
            # an RLock taken `depth` times must still be held after depth-1
            # releases: stay "inside" while giving them back
            for _ in range(depth - 1):
                prim.release()
            look()
            ver += 1
            put(_VER, ver)
            prim.release()
            put(_ITERS, it + 1)
    except BaseException:      # noqa - reported through the board
        status = ST_RAISED
        put(_STATUS, status)
        put(_VIOL, viol)
        raise
    put(_VIOL, viol)
    put(_CONT, cont)
    put(_MAXIN, maxin)
    put(_OBS, obs)
    put(_STATUS, status)


def party_main(prim, path, parties, first, nthreads, limit, iters, depth,
               hold):
    board = Board.open(path, parties)
    try:
        ths = [threading.Thread(target=_party, args=(
            board, prim, first + k, limit, iters, depth, hold))
            for k in range(nthreads)]
        for t in ths:
            t.start()
        for t in ths:
            t.join()
    finally:
        board.close()


PROBE_REFUSED, PROBE_GOT = 40, 41


def probe_main(prim):
    """try a non-blocking acquire from another process; report by exit code"""
    import sys
    got = prim.acquire(False)
    if got:
        prim.release()
    sys.exit(PROBE_GOT if got else PROBE_REFUSED)
