"""C16 part 'firstput': several threads of one process make their FIRST put on a
fresh Queue at the same moment (barrier, switch interval 1 us).  The lazily
started feeder thread must be started once: every item arrives exactly once,
items of one producer in order, nothing is left counted in the queue."""
import sys
import threading
import time

from hypothesis import strategies as st

from vlib.core import bad, inconclusive, ok


def cases():
    return st.fixed_dictionaries({
        'threads': st.integers(2, 5),
        'items': st.integers(1, 6),
        'maxsize': st.sampled_from([0, 0, 50]),
        'rounds': st.integers(3, 12),
        'slow_pickle': st.booleans(),
    })


class _Slow:
    """takes a moment to pickle (widens any window in the feeder)"""
    def __init__(self, v):
        self.v = v

    def __reduce__(self):
        time.sleep(0.002)
        return (_Slow, (self.v,))

    def __eq__(self, o):
        return isinstance(o, _Slow) and o.v == self.v

    def __hash__(self):
        return hash(self.v)


def execute(case):
    import billiard
    from queue import Empty
    k, n = case['threads'], case['items']
    old = sys.getswitchinterval()
    sys.setswitchinterval(1e-6)
    try:
        for r in range(case['rounds']):
            q = billiard.Queue(case['maxsize'])
            barrier = threading.Barrier(k)
            errors = []

            def producer(t):
                try:
                    barrier.wait(30)
                    for i in range(n):
                        item = (t, i)
                        q.put(_Slow(item) if case['slow_pickle'] and i % 2 == 0
                              else item)
                except BaseException as exc:
                    errors.append('%s: %r' % (type(exc).__name__, exc))
            ths = [threading.Thread(target=producer, args=(t,)) for t in range(k)]
            for t in ths:
                t.start()
            for t in ths:
                t.join(60)
            got = []
            try:
                if any(t.is_alive() for t in ths):
                    return inconclusive('producers stuck')
                if errors:
                    return bad('C16/firstput-put-raised', 'round %d: put() raised '
                               '%s' % (r, errors[0]))
                try:
                    for _ in range(k * n):
                        v = q.get(timeout=5)
                        got.append(v.v if isinstance(v, _Slow) else v)
                except Empty:
                    return bad('C16/firstput-lost', 'round %d: %d threads x %d '
                               'first puts, only %d items came out: missing %r'
                               % (r, k, n, len(got), sorted(
                                   set((t, i) for t in range(k) for i in range(n))
                                   - set(got))[:5]))
                if sorted(got) != sorted((t, i) for t in range(k)
                                         for i in range(n)):
                    return bad('C16/firstput-multiset', 'round %d: got %r' % (
                        r, got))
                for t in range(k):
                    seq = [i for (tt, i) in got if tt == t]
                    if seq != sorted(seq):
                        return bad('C16/firstput-order', 'round %d: producer %d\'s '
                                   'items came out as %r' % (r, t, seq))
                try:
                    extra = q.get(timeout=0.05)
                    return bad('C16/firstput-duplicate', 'extra item %r' % (extra,))
                except Empty:
                    pass
                if q.qsize() != 0:
                    return bad('C16/firstput-count', 'round %d: drained queue '
                               'reports qsize %d' % (r, q.qsize()))
            finally:
                q.close()
                q.join_thread()
    finally:
        sys.setswitchinterval(old)
    return ok(True, ['threads=%d' % k])
