"""C20 part 'shared': referents that several proxies share through a registered
callable (the documented remote-manager pattern ``register('get_queue',
callable=lambda: queue)``).  The server keeps ONE entry per referent, so its
reference count must follow every proxy in every client: the referent stays while
any proxy lives and goes when the last one is released.

A case is a list of steps over up to 3 shared lists:
  ['get', k]            main process obtains a new proxy to shared list k
  ['copy', p]           pickle round trip of proxy p (a further proxy)
  ['append', p, v]      through proxy p
  ['read', p]           list(proxy p) must equal the model
  ['drop', p]           release proxy p (+ gc)
  ['client', k, v]      a forked client connects with the key, gets a proxy to
                        list k, appends v, exits
"""
import gc
import os
import pickle

from hypothesis import strategies as st

from vlib.core import bad, inconclusive, ok

_SERVER_LISTS = {}


def _get_list(k):
    return _SERVER_LISTS.setdefault(k, [])


def _manager_class():
    from billiard.managers import BaseManager, ListProxy

    class SharedManager(BaseManager):
        pass
    SharedManager.register('get_list', callable=_get_list, proxytype=ListProxy)
    return SharedManager


def _client(address, authkey, k, v, conn):
    try:
        import billiard
        billiard.current_process().authkey = authkey
        M = _manager_class()
        m = M(address=address, authkey=authkey)
        m.connect()
        p = m.get_list(k)
        p.append(v)
        n = len(p)
        del p
        gc.collect()
        conn.send(('ok', n))
    except BaseException as exc:
        conn.send(('err', '%s: %r' % (type(exc).__name__, exc)))
    finally:
        conn.close()


def cases():
    step = st.one_of(
        st.tuples(st.just('get'), st.integers(0, 2)),
        st.tuples(st.just('get'), st.integers(0, 1)),
        st.tuples(st.just('copy'), st.integers(0, 9)),
        st.tuples(st.just('append'), st.integers(0, 9), st.integers(0, 99)),
        st.tuples(st.just('read'), st.integers(0, 9)),
        st.tuples(st.just('drop'), st.integers(0, 9)),
        st.tuples(st.just('drop'), st.integers(0, 9)),
        st.tuples(st.just('client'), st.integers(0, 2), st.integers(100, 199)),
    )
    return st.fixed_dictionaries({
        'steps': st.lists(step.map(list), min_size=8, max_size=25)})


def execute(case):
    import billiard
    from billiard.managers import RemoteError
    M = _manager_class()
    mgr = M()
    mgr.start()
    labels = set()
    proxies = []          # [k, proxy]
    model = {}            # k -> contents (survives disposal: the callable keeps it)
    try:
        def live(k):
            return sum(1 for kk, _ in proxies if kk == k)

        def check_count(after):
            want = len(set(kk for kk, _ in proxies))
            got = mgr._number_of_objects()
            if got != want:
                return bad('C20/shared/object-count', 'after %r the server holds '
                           '%d shared objects, %d have a live proxy' % (
                               after, got, want))
            return None
        for step in case['steps']:
            op = step[0]
            try:
                if op == 'get':
                    k = step[1]
                    if live(k):
                        labels.add('second_proxy_same_referent')
                    proxies.append([k, mgr.get_list(k)])
                    model.setdefault(k, [])
                elif op == 'client':
                    k, v = step[1], step[2]
                    a, b = billiard.Pipe(False)
                    p = billiard.Process(target=_client, args=(
                        mgr.address, bytes(billiard.current_process().authkey),
                        k, v, b))
                    p.start()
                    b.close()
                    if not a.poll(60):
                        p.terminate()
                        p.join(10)
                        return inconclusive('client did not answer')
                    kind, val = a.recv()
                    p.join(30)
                    a.close()
                    model.setdefault(k, [])
                    if kind != 'ok':
                        return bad('C20/shared/client-failed', 'client on list %d: '
                                   '%s' % (k, val))
                    model[k].append(v)
                    if val != len(model[k]):
                        return bad('C20/shared/client-state', 'client saw length '
                                   '%d, model %d' % (val, len(model[k])))
                    if live(k):
                        labels.add('client_while_proxy_alive')
                elif not proxies:
                    continue
                else:
                    idx = step[1] % len(proxies)
                    k, px = proxies[idx]
                    if op == 'copy':
                        proxies.append([k, pickle.loads(pickle.dumps(px))])
                    elif op == 'append':
                        px.append(step[2])
                        model[k].append(step[2])
                    elif op == 'read':
                        got = list(px)
                        if got != model[k]:
                            return bad('C20/shared/state', 'list %d reads %r, '
                                       'model %r' % (k, got, model[k]))
                    elif op == 'drop':
                        if live(k) >= 2:
                            labels.add('drop_one_of_several')
                        del proxies[idx]
                        del px
                        gc.collect()
            except RemoteError as exc:
                return bad('C20/shared/referent-gone', 'step %r through a live '
                           'proxy raised RemoteError: %s' % (
                               step, str(exc)[-300:]))
            v = check_count(step)
            if v:
                return v
        # every surviving proxy still works
        for k, px in proxies:
            try:
                if list(px) != model[k]:
                    return bad('C20/shared/state', 'list %d at the end' % k)
            except RemoteError as exc:
                return bad('C20/shared/referent-gone', 'surviving proxy to list %d '
                           'raised RemoteError: %s' % (k, str(exc)[-300:]))
        del proxies[:]
        px = None
        gc.collect()
        if mgr._number_of_objects() != 0:
            return bad('C20/shared/not-disposed', '%d objects left after the last '
                       'proxy was released' % mgr._number_of_objects())
    finally:
        del proxies[:]
        try:
            mgr.shutdown()
        except Exception:
            pass
    nt = bool(labels & {'drop_one_of_several', 'client_while_proxy_alive'})
    return ok(nt, sorted(labels))
