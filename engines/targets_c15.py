"""C15 - importable pieces shared by the parent check and its child processes:
the type table, raw-int -> value mapping, the read/write access layer over
billiard shared ctypes objects, and the child-process targets (round trip,
contended increments).  Must stay importable under spawn / forkserver, so it
imports nothing from the harness.
"""
import ctypes
import struct
import time

M64 = (1 << 64) - 1


class Point(ctypes.Structure):
    _fields_ = [('x', ctypes.c_int), ('y', ctypes.c_double),
                ('z', ctypes.c_ubyte)]


# module-level name so that the nested array type pickles by reference
c_ubyte_Array_3 = ctypes.c_ubyte * 3
try:
    c_ubyte_Array_3.__module__ = __name__
except (TypeError, AttributeError):     # pragma: no cover
    pass

_PRIM_CT = {
    'c': ctypes.c_char, 'u': ctypes.c_wchar,
    'b': ctypes.c_byte, 'B': ctypes.c_ubyte,
    'h': ctypes.c_short, 'H': ctypes.c_ushort,
    'i': ctypes.c_int, 'I': ctypes.c_uint,
    'l': ctypes.c_long, 'L': ctypes.c_ulong,
    'q': ctypes.c_longlong, 'Q': ctypes.c_ulonglong,
    'f': ctypes.c_float, 'd': ctypes.c_double, '?': ctypes.c_bool,
}
_SIGNED = set('bhilq')
_UNSIGNED = set('BHILQ')

# name -> (what is passed as typecode_or_type, shape, [(attr, prim), ...])
TYPES = {}
for _tc in 'cubBhHiIlLfd':
    TYPES[_tc] = (_tc, 'prim', [(None, _tc)])
TYPES['c_longlong'] = (ctypes.c_longlong, 'prim', [(None, 'q')])
TYPES['c_ulonglong'] = (ctypes.c_ulonglong, 'prim', [(None, 'Q')])
TYPES['c_bool'] = (ctypes.c_bool, 'prim', [(None, '?')])
TYPES['c_ushort'] = (ctypes.c_ushort, 'prim', [(None, 'H')])
TYPES['c_float'] = (ctypes.c_float, 'prim', [(None, 'f')])
TYPES['ubyte3'] = (c_ubyte_Array_3, 'vec', [(0, 'B'), (1, 'B'), (2, 'B')])
TYPES['Point'] = (Point, 'struct', [('x', 'i'), ('y', 'd'), ('z', 'B')])
TYPE_NAMES = list(TYPES)


def int_range(prim):
    bits = 8 * ctypes.sizeof(_PRIM_CT[prim])
    if prim in _SIGNED:
        return -(1 << (bits - 1)), (1 << (bits - 1)) - 1
    return 0, (1 << bits) - 1


def mix(r, j):
    """decorrelate the fields of a composite element built from one raw int"""
    if j == 0:
        return r & M64
    return (r * 0x9E3779B97F4A7C15 + j * 0x632BE5AB + (r >> 29)) & M64


def mkval(prim, r):
    """map a raw 64-bit int onto a value of the primitive's domain"""
    r &= M64
    if prim == 'c':
        return bytes([r % 256])
    if prim == 'u':
        cp = r % 0x110000
        if 0xD800 <= cp <= 0xDFFF:
            cp -= 0x800
        return chr(cp)
    if prim == '?':
        return bool(r & 1)
    if prim in _SIGNED or prim in _UNSIGNED:
        lo, hi = int_range(prim)
        if r % 8 == 0:
            edge = [lo, hi, 0, 1, hi - 1, lo + 1]
            return edge[(r >> 3) % len(edge)]
        return lo + (r >> 3) % (hi - lo + 1)
    if r % 4 == 0:
        return float((r >> 2) % 2001 - 1000) / 8
    if prim == 'd':
        x = struct.unpack('<d', struct.pack('<Q', r))[0]
    else:
        x = struct.unpack('<f', struct.pack('<I', r & 0xFFFFFFFF))[0]
    if x != x or x in (float('inf'), float('-inf')):
        x = float(r % 2001 - 1000) / 8
    return x


def zero(prim):
    if prim == 'c':
        return b'\x00'
    if prim == 'u':
        return '\x00'
    if prim == '?':
        return False
    if prim in 'fd':
        return 0.0
    return 0


def same(prim, got, want):
    if prim in 'fd':
        return (isinstance(got, float) and
                struct.pack('<d', got) == struct.pack('<d', want))
    return type(got) is type(want) and got == want


def same_elem(fields, got, want):
    return (len(got) == len(want) and
            all(same(p, g, w) for (_, p), g, w in zip(fields, got, want)))


# ---------------------------------------------------------------------------
# access layer (works on Synchronized* wrappers and raw ctypes objects alike)
# ---------------------------------------------------------------------------

def read_obj(obj, tname, is_array, sliced=False):
    """-> list of elements, each a list of primitive values"""
    _, shape, fields = TYPES[tname]
    if not is_array:
        if shape == 'prim':
            return [[obj.value]]
        if shape == 'struct':
            return [[getattr(obj, a) for a, _ in fields]]
        return [[obj[j] for j, _ in fields]]
    n = len(obj)
    if shape == 'prim':
        if sliced:
            s = obj[0:n]
            if tname == 'c':
                return [[bytes([b])] for b in s]
            return [[x] for x in s]
        return [[obj[i]] for i in range(n)]
    out = []
    for i in range(n):
        e = obj[i]
        if shape == 'struct':
            out.append([getattr(e, a) for a, _ in fields])
        else:
            out.append([e[j] for j, _ in fields])
    return out


def write_field(obj, tname, is_array, i, f, v, whole=False):
    """set field f of element i to v; ``whole`` rewrites the whole element
    (composite array elements only) from its current contents"""
    _, shape, fields = TYPES[tname]
    if not is_array:
        if shape == 'prim':
            obj.value = v
        elif shape == 'struct':
            setattr(obj, fields[f][0], v)
        else:
            obj[f] = v
        return
    if shape == 'prim':
        obj[i] = v
    elif whole:
        e = obj[i]
        if shape == 'struct':
            cur = [getattr(e, a) for a, _ in fields]
        else:
            cur = [e[j] for j, _ in fields]
        cur[f] = v
        obj[i] = tuple(cur)
    elif shape == 'struct':
        setattr(obj[i], fields[f][0], v)
    else:
        obj[i][f] = v


def write_slice(obj, tname, start, vals):
    """prim arrays only: obj[start:start+len(vals)] = vals"""
    if tname == 'c':
        vals = b''.join(vals)
    elif tname == 'u':
        vals = ''.join(vals)
    obj[start:start + len(vals)] = vals


def resolve_write(spec, w):
    """spec = (tname, is_array, n); w = [k, i, f, raw, whole] already reduced
    to a concrete object; -> (i, f, value, whole) or None when the object has
    no element to write"""
    tname, is_array, n = spec
    fields = TYPES[tname][2]
    if is_array and n == 0:
        return None
    i = w[1] % n if is_array else 0
    f = w[2] % len(fields)
    return i, f, mkval(fields[f][1], mix(w[3], f)), bool(w[4])


# ---------------------------------------------------------------------------
# child targets
# ---------------------------------------------------------------------------

def _describe(exc):
    return '%s: %s' % (type(exc).__name__, str(exc)[:300])


def roundtrip(conn, specs, objs, plan):
    """1. report what this process reads; 2. do the planned writes; 3. wait
    for the parent's go; 4. report what this process reads now."""
    try:
        conn.send(('read1', [read_obj(o, s[0], s[1])
                             for o, s in zip(objs, specs)]))
        for w in plan:
            k = w[0]
            r = resolve_write(specs[k], w)
            if r is not None:
                i, f, v, whole = r
                write_field(objs[k], specs[k][0], specs[k][1], i, f, v, whole)
        conn.send(('written', None))
        if not conn.poll(120):
            return
        conn.recv()
        conn.send(('read2', [read_obj(o, s[0], s[1])
                             for o, s in zip(objs, specs)]))
    except BaseException as exc:
        try:
            conn.send(('error', _describe(exc)))
        except Exception:
            pass
        raise


def hammer(conn, obj, tname, is_array, how, raw_body, idxs, m):
    """up to m locked read-modify-write increments (stops early when the
    budget sent by the parent is used up and reports how many were made);
    ``how`` = the way the object's lock is held, ``raw_body`` = touch the
    underlying object (needed when the lock is not recursive).  Before that,
    if the parent asks for it, one single locked increment announced by
    'probing' (the parent holds the lock at that moment)."""
    try:
        shape = TYPES[tname][1]
        target = obj.get_obj() if raw_body else obj
        lock = obj.get_lock()

        def bump(i):
            if how == 0:
                lock.acquire()
            elif how == 1:
                obj.acquire()
            elif how == 2:
                obj.__enter__()
            else:
                lock.__enter__()
            try:
                if not is_array:
                    if shape == 'prim':
                        target.value += 1
                    else:
                        target.x += 1
                elif shape == 'prim':
                    target[i] += 1
                else:
                    target[i].x += 1
            finally:
                if how == 0:
                    lock.release()
                elif how == 1:
                    obj.release()
                elif how == 2:
                    obj.__exit__(None, None, None)
                else:
                    lock.__exit__(None, None, None)

        conn.send(('ready', None))
        if not conn.poll(120):
            return
        msg = conn.recv()
        if msg == 'probe':
            conn.send(('probing', None))
            bump(idxs[0])
            conn.send(('probed', None))
            if not conn.poll(300):
                return
            msg = conn.recv()
        deadline = time.monotonic() + msg
        nidx = len(idxs)
        made = 0
        for k in range(m):
            if not k & 31 and time.monotonic() > deadline:
                break
            bump(idxs[k % nidx])
            made += 1
        conn.send(('done', made))
    except BaseException as exc:
        try:
            conn.send(('error', _describe(exc)))
        except Exception:
            pass
        raise
