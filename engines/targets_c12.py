"""Module-level targets for C12 (and for anybody driving engines.workerloop):
exception classes, a raiser with a chosen traceback depth, builders for
values that cannot be pickled at a chosen nesting depth, and ``task`` - a task
function interpreting a small JSON behaviour.

Everything is addressed by JSON-able specs so that a case stays a plain JSON
value, and every builder is *total*: any list of value specs gives a valid
exception of the named type (shrinking may drop list elements freely).

value spec (exception arguments, return values)
    None / bool / int / float / str     themselves
    [..]                                tuple of decoded elements
    {'b': [ints]}                       bytes

behaviour (for ``task``) - a dict
    {'kind': 'ret', 'value': value_spec}
        return the decoded value
    {'kind': 'raise', 'type': name, 'args': [value specs], 'depth': d}
        raise build_exc(name, args) with d frames below the task function
        (d >= 1: raise_at + (d-1) x c12_rec; d == 0: recurse for ever, the
        interpreter raises RecursionError)
    {'kind': 'unp', 'leaf': leaf, 'wrap': [wrappers]}
        return a value that cannot be pickled: the leaf wrapped len(wrap)
        times (= nesting depth)
``task(tag, behaviour)`` records ``tag`` in the engine's witness first.
"""
import sys
import threading

from engines import workerloop

FILE = __file__


# ---------------------------------------------------------------------------
# exception types
# ---------------------------------------------------------------------------

class C12Error(Exception):
    """plain module-level Exception subclass"""


class C12KeyError(KeyError):
    """subclass of a builtin with a special __str__"""


class C12Stateful(Exception):
    """keeps state outside args (travels through __reduce__'s state dict)"""

    def __init__(self, *args):
        super().__init__(*args)
        self.count = len(args)
        self.note = 'n=%d' % len(args)


class C12Base(BaseException):
    """module-level BaseException subclass"""


class C12BaseStateful(BaseException):
    def __init__(self, *args):
        super().__init__(*args)
        self.count = len(args)


# name -> (class, kind) ; kind: 'free' any args, 'oserror', 'udecode', 'uencode'
EXC_TYPES = {
    'Exception': (Exception, 'free'),
    'ValueError': (ValueError, 'free'),
    'TypeError': (TypeError, 'free'),
    'KeyError': (KeyError, 'free'),
    'IndexError': (IndexError, 'free'),
    'LookupError': (LookupError, 'free'),
    'RuntimeError': (RuntimeError, 'free'),
    'ZeroDivisionError': (ZeroDivisionError, 'free'),
    'AssertionError': (AssertionError, 'free'),
    'StopIteration': (StopIteration, 'free'),
    'MemoryError': (MemoryError, 'free'),
    'OSError': (OSError, 'oserror'),
    'UnicodeDecodeError': (UnicodeDecodeError, 'udecode'),
    'UnicodeEncodeError': (UnicodeEncodeError, 'uencode'),
    'KeyboardInterrupt': (KeyboardInterrupt, 'free'),
    'SystemExit': (SystemExit, 'free'),
    'GeneratorExit': (GeneratorExit, 'free'),
    'C12Error': (C12Error, 'free'),
    'C12KeyError': (C12KeyError, 'free'),
    'C12Stateful': (C12Stateful, 'free'),
    'C12Base': (C12Base, 'free'),
    'C12BaseStateful': (C12BaseStateful, 'free'),
}


def decode(v):
    if isinstance(v, list):
        return tuple(decode(x) for x in v)
    if isinstance(v, dict):
        return bytes(v['b'])
    return v


ERRNOS = (1, 2, 4, 11, 13, 17, 32, 104, 110, 9999)


def build_exc(type_name, arg_specs):
    """the exception instance a spec denotes (total over arg_specs)"""
    cls, kind = EXC_TYPES[type_name]
    args = [decode(a) for a in arg_specs]
    if kind == 'free':
        return cls(*args)
    ints = [a for a in args if isinstance(a, int) and not isinstance(a, bool)]
    texts = [a for a in args if isinstance(a, str)]
    blobs = [a for a in args if isinstance(a, bytes)]
    if kind == 'oserror':
        if not args:
            return cls()
        errno_ = ERRNOS[(ints[0] if ints else len(args)) % len(ERRNOS)]
        strerror = texts[0] if texts else 'boom'
        if len(texts) >= 2 and errno_ != 11:   # BlockingIOError: 3rd is an int
            return cls(errno_, strerror, texts[1])
        return cls(errno_, strerror)
    if kind == 'udecode':
        obj = b'\xff' + (blobs[0] if blobs else b'')
        return cls('utf-8', obj, 0, 1 + len(ints) % 2,
                   texts[0] if texts else 'invalid start byte')
    if kind == 'uencode':
        obj = (texts[0] if texts else '') + '\u20ac'
        return cls('ascii', obj, len(obj) - 1, len(obj),
                   texts[1] if len(texts) > 1 else 'ordinal not in range(128)')
    raise ValueError(kind)


# ---------------------------------------------------------------------------
# raising at a chosen traceback depth
# ---------------------------------------------------------------------------

def c12_rec(exc, n):
    if n <= 0:
        raise exc
    c12_rec(exc, n - 1)


def c12_forever(n=0):
    return c12_forever(n + 1) + 1


def raise_at(exc, depth):
    """Raise ``exc`` so that the traceback seen by the *caller's* handler has
    ``depth + 1`` entries: the caller's frame, this frame (depth 1), and
    ``depth - 1`` frames of c12_rec below it.  depth 0 = unbounded recursion
    (the interpreter raises RecursionError, ``exc`` is not used)."""
    if depth == 0:
        c12_forever()
    if depth == 1:
        raise exc
    c12_rec(exc, depth - 2)


def raising_name(depth):
    """name of the function whose frame raises, for raise_at(exc, depth)"""
    return ('c12_forever' if depth == 0 else
            'raise_at' if depth == 1 else 'c12_rec')


def capture(exc, frames, on_caught):
    """Raise ``exc`` with a traceback of exactly ``frames`` entries (this
    frame included; 0 = unbounded recursion) and call ``on_caught()`` inside
    the handler, the way the worker loop builds its ExceptionInfo.  Returns
    ``(sys.exc_info(), on_caught())``."""
    try:
        if frames == 1:
            raise exc
        raise_at(exc, frames - 1 if frames else 0)
    except BaseException:                                   # noqa
        return sys.exc_info(), on_caught()


# ---------------------------------------------------------------------------
# values that cannot be pickled
# ---------------------------------------------------------------------------

class Box:
    """picklable by itself; fails only through what it holds"""

    def __init__(self, inner):
        self.inner = inner

    def __repr__(self):
        return 'Box(%r)' % (self.inner,)


class Refuses:
    """its __reduce__ raises an ordinary exception"""

    def __reduce__(self):
        raise ValueError('Refuses instances do not pickle')

    def __repr__(self):
        return 'Refuses()'


def _gen():
    yield 1


LEAVES = ('lambda', 'lock', 'rlock', 'generator', 'localcls', 'memoryview',
          'refuses')
WRAPPERS = ('list', 'tuple', 'dict', 'obj', 'listmid', 'dictkeytuple')


def build_unpicklable(leaf, wrappers):
    """leaf wrapped len(wrappers) times (nesting depth = len(wrappers))"""
    if leaf == 'lambda':
        v = lambda: None                                   # noqa
    elif leaf == 'lock':
        v = threading.Lock()
    elif leaf == 'rlock':
        v = threading.RLock()
    elif leaf == 'generator':
        v = _gen()
    elif leaf == 'localcls':
        class Local:
            def __repr__(self):
                return 'Local()'
        v = Local()
    elif leaf == 'memoryview':
        v = memoryview(b'abc')
    elif leaf == 'refuses':
        v = Refuses()
    else:
        raise ValueError(leaf)
    for w in wrappers:
        if w == 'list':
            v = [v]
        elif w == 'tuple':
            v = (v,)
        elif w == 'dict':
            v = {'k': v}
        elif w == 'obj':
            v = Box(v)
        elif w == 'listmid':
            v = [1, 'two', v, None]
        elif w == 'dictkeytuple':
            v = {(1, 2): v, 'other': 3.5}
        else:
            raise ValueError(w)
    return v


# ---------------------------------------------------------------------------
# the task function
# ---------------------------------------------------------------------------

def task(tag, behaviour):
    """Records ``tag`` in the engine's witness, then acts.  For 'unp' a second
    record ``('repr', tag, repr(value))`` is added so that the oracle knows how
    the value the loop could not send was spelt."""
    workerloop.record(tag)
    kind = behaviour['kind']
    if kind == 'ret':
        return decode(behaviour['value'])
    if kind == 'raise':
        raise_at(build_exc(behaviour['type'], behaviour['args']),
                 behaviour['depth'])
        raise AssertionError('raise_at returned')       # pragma: no cover
    if kind == 'unp':
        v = build_unpicklable(behaviour['leaf'], behaviour['wrap'])
        workerloop.record(('repr', tag, repr(v)))
        return v
    raise ValueError('unknown behaviour %r' % (kind,))
