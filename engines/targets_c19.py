"""Child-side targets for props/c19.py (importable under spawn and forkserver).

``child_main`` reports "ready", blocks on a pipe until the parent releases it,
then leaves through the exit path named in ``spec``.
"""
import os
import signal
import sys
import time

MAX_LIFE = 60.0       # a child whose parent vanished gives up after this long
GAVE_UP = 97          # ... with this exit code


def _no_core():
    """No core file and no core-pattern helper for the suicides below."""
    import resource
    try:
        resource.setrlimit(resource.RLIMIT_CORE, (0, 0))
    except (ValueError, OSError):
        pass
    try:
        import ctypes
        ctypes.CDLL(None, use_errno=True).prctl(4, 0, 0, 0, 0)  # PR_SET_DUMPABLE
    except Exception:
        pass


def _quiet():
    """The traceback of a raising target is not wanted in the shard log."""
    try:
        fd = os.open(os.devnull, os.O_WRONLY)
        os.dup2(fd, 2)
        os.close(fd)
    except OSError:
        pass


class Boom(Exception):
    pass


_RAISABLE = {
    'Exception': Exception,
    'Boom': Boom,
    'KeyboardInterrupt': KeyboardInterrupt,
    'ZeroDivisionError': ZeroDivisionError,
    'BaseException': BaseException,
    'GeneratorExit': GeneratorExit,
}


def grandchild_noop():
    """Target of the process object the child must NOT be able to start."""


def child_main(spec, rel, rep, foreign=None):
    """spec = {'exit': [kind, arg], 'delay_ms': int}

    rel: read end (released by one message), rep: write end (ready report).
    foreign: an unstarted process object created by the parent, or None.
    """
    _quiet()
    verdict = b'-'
    if foreign is not None:
        try:
            foreign.start()
        except AssertionError:
            verdict = b'A'
        except BaseException as exc:      # anything else is reported as such
            verdict = b'E' + type(exc).__name__.encode()
        else:
            verdict = b'S'
            try:
                foreign.join(10)
            except BaseException:
                pass
    rep.send_bytes(b'R' + verdict)
    if not rel.poll(MAX_LIFE):
        os._exit(GAVE_UP)
    rel.recv_bytes()
    kind, arg = spec['exit'][0], spec['exit'][1]
    delay = spec.get('delay_ms', 0)
    if delay:
        time.sleep(delay / 1000.0)
    if kind == 'return':
        return
    if kind == 'raise':
        raise _RAISABLE[arg]('generated')
    if kind == 'exit':
        sys.exit(arg)
    if kind == 'sig':
        _no_core()
        if arg not in (signal.SIGKILL, signal.SIGSTOP):
            signal.signal(arg, signal.SIG_DFL)
        signal.pthread_sigmask(signal.SIG_UNBLOCK, [arg])
        os.kill(os.getpid(), arg)
        time.sleep(MAX_LIFE)              # delivery is immediate; never reached
        os._exit(GAVE_UP)
    if kind == 'ext':
        # the parent kills us; nothing to do but wait for it
        time.sleep(MAX_LIFE)
        os._exit(GAVE_UP)
    os._exit(GAVE_UP)
