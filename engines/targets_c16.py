"""Child-side code of the C16 (queues) check.

Everything here is importable by child processes (``engines.targets_c16``) and
free of Hypothesis.  ``arena_main`` runs one multi-party scenario inside a
forked, setsid'ed "arena" process: the arena creates the queue, starts the
process parties through ``billiard.Process`` (so the queue's after-fork hook
runs), then the thread parties, opens a gate, and collects what every consumer
received.  Nothing is judged here except facts that can only be observed on
the spot (join() returning early, the capacity lower bound); the oracle lives
in props/c16.py.
"""
import json
import os
import threading
import time

PIPE_BUF_BYTES = 65536          # Linux default pipe capacity
BYTE_CAP = 3 * 1024 * 1024      # per producer, keeps a case well under 1 s
_PAT = bytes(range(251)) * 2

PRODUCERS_DEADLINE = 30.0       # s without any consumer receiving anything
#                                 while producers are still busy
STALL_DEADLINE = 20.0           # s without any consumer receiving anything,
#                                 after every producer has finished and flushed
JOIN_DEADLINE = 20.0            # s for join() after every task_done happened
EXIT_DEADLINE = 60.0            # s for a consumer process that has written its
#                                 report to exit (else inconclusive)


def payload(p, seq, size):
    """deterministic payload of item ``seq`` of producer ``p``"""
    r = (p * 67 + seq * 13) % 251
    base = _PAT[r:r + 251]
    return (base * (size // 251 + 1))[:size]


def size_of(pspec, seq):
    sizes = pspec.get('sizes') or [0]
    return int(sizes[seq % len(sizes)])


def plan_n(pspec):
    """number of items the producer really sends (byte cap applied)"""
    n, tot = 0, 0
    for seq in range(int(pspec['n'])):
        tot += size_of(pspec, seq)
        if tot > BYTE_CAP and n >= 5:
            break
        n += 1
    return n


def make_queue(kind, maxsize):
    import billiard
    if kind == 'SQ':
        return billiard.SimpleQueue()
    if kind == 'JQ':
        return billiard.JoinableQueue(maxsize)
    return billiard.Queue(maxsize)


class Counters:
    """Lower bound on the number of waiting items, from thread parties only:
    P counts puts that have returned, G counts gets that have been started."""

    def __init__(self):
        self.lock = threading.Lock()
        self.p = 0
        self.g = 0
        self.max_lb = 0

    def put_returned(self):
        with self.lock:
            self.p += 1
            if self.p - self.g > self.max_lb:
                self.max_lb = self.p - self.g

    def get_starting(self):
        with self.lock:
            self.g += 1


def produce(q, case, k, prog_w=None, counters=None):
    """the producer loop; returns a report dict"""
    from queue import Full
    pspec = case['producers'][k]
    timed = pspec.get('mode') == 'timed' and case['kind'] != 'SQ'
    rep = {'sent': 0, 'full_hits': 0, 'error': None,
           't_start': time.monotonic(), 't_end': None}
    if prog_w is not None:
        os.write(prog_w, b'p')           # this producer is running
    try:
        for seq in range(plan_n(pspec)):
            item = (k, seq, payload(k, seq, size_of(pspec, seq)))
            if timed:
                while True:
                    try:
                        q.put(item, True, 0.02)
                        break
                    except Full:
                        rep['full_hits'] += 1
            else:
                q.put(item)
            if counters is not None:
                counters.put_returned()
            rep['sent'] += 1
    except BaseException as exc:     # whatever put raised is a finding
        rep['error'] = '%s: %r' % (type(exc).__name__, exc)
    rep['t_end'] = time.monotonic()
    return rep


def consume(q, case, k, prog_w, counters=None):
    """the consumer loop; returns a report dict.  ``log`` holds
    [producer, seq, payload_ok] in the order this consumer received them."""
    from queue import Empty
    cspec = case['consumers'][k]
    kind = case['kind']
    timed = cspec.get('mode') == 'timed' and kind != 'SQ'
    prods = case['producers']
    rep = {'log': [], 'sentinels': 0, 'empty_hits': 0, 'error': None,
           'malformed': None, 't_start': time.monotonic(), 't_last': None,
           't_end': None}
    log = rep['log']
    os.write(prog_w, b'c')               # this consumer is running
    try:
        while True:
            if counters is not None:
                counters.get_starting()
            if timed:
                while True:
                    try:
                        item = q.get(True, 0.02)
                        break
                    except Empty:
                        rep['empty_hits'] += 1
            else:
                item = q.get()
            rep['t_last'] = time.monotonic()
            os.write(prog_w, b'.')       # progress; strictly before task_done
            if kind == 'JQ':
                q.task_done()
            if item is None:
                rep['sentinels'] += 1
                break
            if not (type(item) is tuple and len(item) == 3 and
                    type(item[0]) is int and type(item[1]) is int and
                    type(item[2]) is bytes and 0 <= item[0] < len(prods)):
                rep['malformed'] = repr(item)[:200]
                break
            p, seq, data = item
            log.append([p, seq,
                        int(data == payload(p, seq, size_of(prods[p], seq)))])
    except BaseException as exc:     # whatever get raised is a finding
        rep['error'] = '%s: %r' % (type(exc).__name__, exc)
    rep['t_end'] = time.monotonic()
    return rep


def _dump(path, obj):
    with open(path + '.tmp', 'w') as f:
        json.dump(obj, f)
    os.rename(path + '.tmp', path)


def _wait_gate(gate_r, gate_w):
    os.close(gate_w)
    os.read(gate_r, 1)      # EOF once the arena closes the last write end
    os.close(gate_r)


def producer_proc(q, case, k, gate_r, gate_w, prog_w, path):
    _wait_gate(gate_r, gate_w)
    _dump(path, produce(q, case, k, prog_w))
    # the process exit handler flushes the feeder thread (Queue._finalize_join)


def consumer_proc(q, case, k, gate_r, gate_w, prog_w, path):
    _wait_gate(gate_r, gate_w)
    _dump(path, consume(q, case, k, prog_w))


def _load(path):
    try:
        with open(path) as f:
            return json.load(f)
    except (FileNotFoundError, ValueError):
        return None


def _drain_nonblocking(fd):
    out = b''
    while True:
        try:
            chunk = os.read(fd, 65536)
        except BlockingIOError:
            return out
        if not chunk:
            return out
        out += chunk


def _thread_stacks():
    """where every thread of this process is (a hang is diagnosed, not
    re-rolled)"""
    import sys
    import traceback
    names = {t.ident: t.name for t in threading.enumerate()}
    out = []
    for ident, frame in sys._current_frames().items():
        out.append('--- thread %s\n%s' % (
            names.get(ident, ident),
            ''.join(traceback.format_stack(frame)[-6:])))
    return '\n'.join(out)


def _child_stacks(procs, fh_path):
    """kernel-side state and Python stacks of the still-running children"""
    import signal
    out = []
    for pr in procs:
        info = []
        for name in ('wchan', 'stack'):
            try:
                with open('/proc/%d/%s' % (pr.pid, name)) as f:
                    info.append('%s: %s' % (name, f.read().strip()[:600]))
            except OSError as exc:
                info.append('%s: %r' % (name, exc))
        try:
            with open('/proc/%d/stat' % pr.pid) as f:
                st = f.read().rsplit(')', 1)[1].split()
            info.append('state=%s utime=%s stime=%s' % (st[0], st[11], st[12]))
        except (OSError, IndexError) as exc:
            info.append('stat: %r' % (exc,))
        out.append('--- child process %s (%s)\n%s' % (
            pr.name, pr.pid, '\n'.join(info)))
        try:
            os.kill(pr.pid, signal.SIGUSR1)
        except OSError:
            pass
    if procs:
        time.sleep(1.0)
        try:
            with open(fh_path) as f:
                out.append('--- faulthandler dumps of the children\n' +
                           f.read()[-6000:])
        except OSError:
            pass
    return '\n'.join(out)


def arena_main(case, tmpdir):
    """Run one scenario; returns the observations as a JSON-able dict."""
    import faulthandler
    import signal
    import billiard
    from queue import Full
    # children inherit this handler: a stalled run can ask them where they are
    fh_path = os.path.join(tmpdir, 'child_stacks.txt')
    fh_file = open(fh_path, 'a')
    faulthandler.register(signal.SIGUSR1, file=fh_file, all_threads=True)
    times = {'arena_start': time.monotonic()}
    kind, maxsize = case['kind'], int(case['maxsize'])
    prods, cons = case['producers'], case['consumers']
    q = make_queue(kind, maxsize)
    total = sum(plan_n(p) for p in prods) + len(cons)
    gate_r, gate_w = os.pipe()
    prog_r, prog_w = os.pipe()
    os.set_blocking(prog_r, False)
    all_cons_threads = not any(c['proc'] for c in cons)
    counters = Counters() if (all_cons_threads and kind != 'SQ'
                              and maxsize > 0) else None

    # process parties first: no thread exists yet in this process
    cprocs, pprocs = {}, {}
    for k, c in enumerate(cons):
        if c['proc']:
            path = os.path.join(tmpdir, 'c%d.json' % k)
            pr = billiard.Process(target=consumer_proc, args=(
                q, case, k, gate_r, gate_w, prog_w, path))
            pr.start()
            cprocs[k] = (pr, path)
    for k, p in enumerate(prods):
        if p['proc']:
            path = os.path.join(tmpdir, 'p%d.json' % k)
            pr = billiard.Process(target=producer_proc, args=(
                q, case, k, gate_r, gate_w, prog_w, path))
            pr.start()
            pprocs[k] = (pr, path)

    times['forked'] = time.monotonic()
    go = threading.Event()
    creps, preps = {}, {}

    def cthread(k):
        go.wait()
        creps[k] = consume(q, case, k, prog_w, counters)

    def pthread(k):
        go.wait()
        preps[k] = produce(q, case, k, prog_w, counters)

    cthreads = {k: threading.Thread(target=cthread, args=(k,), daemon=True,
                                    name='consumer-%d' % k)
                for k, c in enumerate(cons) if not c['proc']}
    pthreads = {k: threading.Thread(target=pthread, args=(k,), daemon=True,
                                    name='producer-%d' % k)
                for k, p in enumerate(prods) if not p['proc']}
    for t in list(cthreads.values()) + list(pthreads.values()):
        t.start()
    os.close(gate_r)
    os.close(gate_w)        # opens the gate for the processes
    go.set()
    times['gate_open'] = time.monotonic()

    res = {'phase': 'done', 'total': total, 'join': None, 'cap_max_lb': None,
           'times': times}

    def collect():
        times['collect'] = time.monotonic()
        times['last_progress'] = prog['t']
        if res['phase'] in ('stalled', 'producers_stuck'):
            res['stacks'] = _thread_stacks() + '\n' + _child_stacks(
                [pr for pr, _ in list(cprocs.values()) + list(pprocs.values())
                 if pr.exitcode is None], fh_path)
        res['consumers'] = []
        for k in range(len(cons)):
            if k in cprocs:
                pr, path = cprocs[k]
                rep = _load(path) or {'log': [], 'sentinels': 0,
                                      'empty_hits': 0, 'error': None,
                                      'malformed': None, 'missing': True}
                rep['exitcode'] = pr.exitcode
            else:
                rep = creps.get(k) or {'log': [], 'sentinels': 0,
                                       'empty_hits': 0, 'error': None,
                                       'malformed': None, 'missing': True}
            res['consumers'].append(rep)
        res['producers'] = []
        for k in range(len(prods)):
            if k in pprocs:
                pr, path = pprocs[k]
                rep = _load(path) or {'sent': 0, 'full_hits': 0,
                                      'error': None, 'missing': True}
                rep['exitcode'] = pr.exitcode
            else:
                rep = preps.get(k) or {'sent': 0, 'full_hits': 0,
                                       'error': None, 'missing': True}
            res['producers'].append(rep)
        if counters is not None:
            res['cap_max_lb'] = counters.max_lb
        return res

    def party_failed():
        for rep in list(creps.values()) + list(preps.values()):
            if rep.get('error') or rep.get('malformed'):
                return True
        for pr, path in list(cprocs.values()) + list(pprocs.values()):
            if pr.exitcode is not None:
                rep = _load(path)
                if rep is None or rep.get('error') or rep.get('malformed'):
                    return True
        return False

    prog = {'n': 0, 'started_c': 0, 'started_p': 0, 'idle': 0.0,
            'last_poll': time.monotonic(), 't': time.monotonic(),
            'lock': threading.Lock()}

    def progress():
        """items received so far by all consumers (one byte each on the
        progress pipe, plus one byte per party that has started)"""
        with prog['lock']:
            data = _drain_nonblocking(prog_r)
            if data:
                prog['n'] += data.count(b'.')
                prog['started_c'] += data.count(b'c')
                prog['started_p'] += data.count(b'p')
                prog['t'] = time.monotonic()
                prog['idle'] = 0.0
            return prog['n']

    def poll(count_idle):
        """one 10 ms step of waiting.  Idle time is *observed* time: a step
        counts for at most 0.1 s, so a freeze of this whole process (GC,
        scheduler) is not mistaken for a stall of the others."""
        time.sleep(0.01)
        now = time.monotonic()
        dt = min(now - prog['last_poll'], 0.1)
        prog['last_poll'] = now
        progress()
        if count_idle:
            prog['idle'] += dt
        else:
            prog['idle'] = 0.0
        return prog['idle']

    def finished(threads, procs, by_report):
        if any(t.is_alive() for t in threads.values()):
            return False
        for pr, path in procs.values():
            if pr.exitcode is None and not (by_report and
                                            os.path.exists(path)):
                return False
        return True

    def wait_for(threads, procs, patience, by_report, all_started):
        """'ok' when all have finished, 'aborted' as soon as any party has
        reported an exception (no point in waiting for the rest), 'timeout'
        when, with every party concerned running, no consumer has received
        anything for ``patience`` seconds"""
        prog['idle'] = 0.0
        prog['last_poll'] = time.monotonic()
        while True:
            if finished(threads, procs, by_report):
                return 'ok'
            if party_failed():
                return 'aborted'
            if poll(all_started()) > patience:
                return 'timeout'

    # 1. all producers finish (a process producer's exit implies its feeder
    #    thread has flushed everything into the pipe)
    how = wait_for(pthreads, pprocs, PRODUCERS_DEADLINE, False,
                   lambda: prog['started_p'] == len(prods) and
                   prog['started_c'] == len(cons))
    if how != 'ok':
        res['phase'] = 'aborted' if how == 'aborted' else 'producers_stuck'
        return collect()

    # 2. one sentinel per consumer, behind every item
    times['producers_done'] = time.monotonic()
    prog['idle'] = 0.0
    for _ in cons:
        if kind == 'SQ':
            q.put(None)
        else:
            while True:
                try:
                    q.put(None, True, 0.05)
                    break
                except Full:
                    if party_failed():
                        res['phase'] = 'aborted'
                        return collect()
                    if poll(prog['started_c'] == len(cons)) > STALL_DEADLINE:
                        res['phase'] = 'stalled'
                        return collect()
        if counters is not None:
            counters.put_returned()

    times['sentinels_put'] = time.monotonic()
    # 3. JoinableQueue: join() must return exactly when everything is done
    jstate = {}
    jthread = None
    if kind == 'JQ':
        def jprobe():
            q.join()
            jstate['progress_at_return'] = progress()
        jthread = threading.Thread(target=jprobe, daemon=True,
                                   name='join-probe')
        jthread.start()

    # 4. consumers finish consuming (a process consumer: its report exists)
    how = wait_for(cthreads, cprocs, STALL_DEADLINE, True,
                   lambda: prog['started_c'] == len(cons))
    if how != 'ok':
        res['phase'] = 'aborted' if how == 'aborted' else 'stalled'
        return collect()
    times['consumers_done'] = time.monotonic()
    deadline = time.monotonic() + EXIT_DEADLINE
    for pr, _ in cprocs.values():
        pr.join(max(0.0, deadline - time.monotonic()))
        if pr.exitcode is None:
            res['phase'] = 'exit_slow'
            return collect()

    if jthread is not None:
        prog['idle'] = 0.0
        prog['last_poll'] = time.monotonic()
        while jthread.is_alive() and poll(True) <= JOIN_DEADLINE:
            pass
        res['join'] = {'returned': not jthread.is_alive(),
                       'progress_at_return':
                           jstate.get('progress_at_return')}

    # 5. nothing may be left behind the sentinels (a duplicate would be)
    collect()
    if kind != 'SQ':
        from queue import Empty
        try:
            extra = q.get(True, 0.05)
            res['extra'] = repr(extra)[:200]
        except Empty:
            res['extra'] = None
        except BaseException as exc:
            res['extra'] = 'raised %s: %r' % (type(exc).__name__, exc)
        th = q._thread
        q.close()
        q.join_thread()
        if th is not None:
            th.join(10)
            res['feeder_alive'] = th.is_alive()
    else:
        q.close()
    return res
