"""Task interpreter for real-pool scenarios (E3).  Importable by fork, spawn and
forkserver children (/verif is on PYTHONPATH)."""
import os
import resource
import signal
import time

from engines.targets import EXC


def _append(path, line):
    fd = os.open(path, os.O_WRONLY | os.O_APPEND | os.O_CREAT, 0o644)
    try:
        os.write(fd, (line + '\n').encode())
    finally:
        os.close(fd)


def rtask(script, tmpdir, tag, x=None):
    """Runs ``script`` (a list of steps) and returns its result.
    Every execution is witnessed in <tmpdir>/exec.log: 'start|end tag pid t'."""
    from billiard.exceptions import SoftTimeLimitExceeded
    pid = os.getpid()
    t = '%s.%s' % (tag, x) if x is not None else str(tag)
    _append(os.path.join(tmpdir, 'exec.log'),
            'start %s %d %.6f' % (t, pid, time.monotonic()))
    ret = None
    soft_hits = 0
    for step in script:
        op = step[0]
        if op == 'sleep':
            time.sleep(step[1])
        elif op == 'mark':
            _append(os.path.join(tmpdir, 'mark-%s' % step[1]),
                    '%d %.6f' % (pid, time.monotonic()))
        elif op == 'ret':
            ret = step[1]
        elif op == 'retx':
            ret = [x, step[1]]
        elif op == 'pid':
            ret = pid
        elif op == 'raise':
            raise EXC[step[1]](*step[2])
        elif op == 'raise_if':          # ['raise_if', [xs], excname]
            if x in step[1]:
                raise EXC[step[2]](x, 'boom')
        elif op in ('exit_if', 'kill_if') and x not in step[1]:
            pass                        # ['exit_if'|'kill_if', [xs], status]
        elif op == 'exit_if':
            _append(os.path.join(tmpdir, 'exec.log'),
                    'die %s %d %.6f' % (t, pid, time.monotonic()))
            os._exit(step[2])
        elif op == 'kill_if':
            resource.setrlimit(resource.RLIMIT_CORE, (0, 0))
            try:
                signal.signal(step[2], signal.SIG_DFL)
            except (OSError, ValueError):
                pass
            _append(os.path.join(tmpdir, 'exec.log'),
                    'die %s %d %.6f' % (t, pid, time.monotonic()))
            os.kill(pid, step[2])
            time.sleep(30)
        elif op == 'exit':
            _append(os.path.join(tmpdir, 'exec.log'),
                    'die %s %d %.6f' % (t, pid, time.monotonic()))
            os._exit(step[1])
        elif op == 'kill':
            resource.setrlimit(resource.RLIMIT_CORE, (0, 0))
            try:
                signal.signal(step[1], signal.SIG_DFL)
            except (OSError, ValueError):
                pass
            _append(os.path.join(tmpdir, 'exec.log'),
                    'die %s %d %.6f' % (t, pid, time.monotonic()))
            os.kill(pid, step[1])
            time.sleep(30)          # never reached for fatal signals
        elif op == 'softloop':
            end = time.monotonic() + step[1]
            while time.monotonic() < end:
                try:
                    time.sleep(0.05)
                except SoftTimeLimitExceeded:
                    soft_hits += 1
                    _append(os.path.join(tmpdir, 'exec.log'),
                            'soft %s %d %.6f' % (t, pid, time.monotonic()))
            ret = ['soft', soft_hits]
        elif op == 'stubborn':
            end = time.monotonic() + step[1]
            while time.monotonic() < end:
                try:
                    time.sleep(0.05)
                except BaseException:
                    pass
        else:
            raise AssertionError('unknown step %r' % (step,))
    _append(os.path.join(tmpdir, 'exec.log'),
            'end %s %d %.6f' % (t, pid, time.monotonic()))
    return ret


def rtask_map(script, tmpdir, tag, x):
    return rtask(script, tmpdir, tag, x)


def rtask_star(script, tmpdir, tag, a, b):
    r = rtask(script, tmpdir, tag, a)
    return [r, b]


def on_exit(tmpdir, pid, exitcode):
    _append(os.path.join(tmpdir, 'exitcb.log'),
            '%d %s %.6f' % (pid, exitcode, time.monotonic()))


def initializer(tmpdir):
    """workers: make SIGWINCH dump all stacks into <tmpdir>/wstack-<pid>"""
    import faulthandler
    try:
        f = open(os.path.join(tmpdir, 'wstack-%d' % os.getpid()), 'w')
        faulthandler.register(signal.SIGWINCH, file=f, all_threads=True,
                              chain=False)
    except Exception:
        pass
