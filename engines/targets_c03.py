"""C03 task wrapper: witnesses the moment the task body starts, so that the
oracle can check that acceptance was announced before the task ran."""
import time

from engines import targets_c12, workerloop


def task(tag, behaviour):
    workerloop.record(('start', tag, time.monotonic()))
    return targets_c12.task(tag, behaviour)
