"""E4 detsched - a harness-owned scheduler at semaphore-operation granularity.

Logical threads are real Python threads passing a baton: exactly one of them
(or the harness) runs at any time.  ``SimCtx.Lock/RLock/Semaphore/
BoundedSemaphore`` return *billiard's own wrapper classes*
(``billiard.synchronize.Lock`` ...) built the way ``SemLock.__setstate__``
builds them, around a ``SimSemLock`` that stands in for the C ``SemLock``
(``acquire(block, timeout)``, ``release``, ``_is_mine``, ``_count``,
``_get_value``, ``_is_zero``, ``__enter__/__exit__``).  ``SimCtx.Condition``
and ``SimCtx.Event`` therefore construct the REAL ``billiard.synchronize.
Condition`` / ``Event`` and all of their code runs unmodified.

Every operation that touches the underlying semaphore is a yield point: the
thread publishes the operation it is about to perform, then one *enabled
transition* among those of all threads is picked:

  release                  always enabled
  acquire(False)           always enabled (takes if value > 0, else fails)
  acquire(True, t)         "take"    if value > 0
                           "timeout" if t is not None and the thread is
                                     *armed*: the value has been 0 at some
                                     moment since the thread arrived, i.e. its
                                     initial sem_trywait may have failed and it
                                     may be inside sem_timedwait, whose timeout
                                     can then fire at any moment, even after a
                                     later post

(The re-entrant path of a RECURSIVE_MUTEX does not touch the semaphore in the
C code and is not a yield point here either.)

Scheduling decisions are taken by whoever holds the baton (so a thread that
simply continues costs no thread switch).  The choice among enabled
transitions is the schedule: a list of ints.  Only
steps with more than one enabled transition consume an entry.  Entry ``x``
selects ``enabled[(d + x) % n]`` where ``d`` is the default transition: the
first transition of the thread that ran last if it has one, else index 0.  So
0 means "no context switch", and a schedule that has run out continues with
defaults.  ``run`` returns at quiescence (no transition enabled).  Threads not
finished at ``close()`` are unwound with a private BaseException while every
simulated operation has become a no-op, and all threads are joined (and
counted gone) before ``close`` returns.

``dfs`` enumerates the schedules of a program by re-execution, with sleep sets
(one representative per class of interleavings that differ only in the order
of commuting transitions, see ``independent``) and an optional preemption
bound.
"""
import _thread
import time


class Abort(BaseException):
    """Unwinds a logical thread that is still blocked when the case ends."""


class SchedulerError(Exception):
    """The harness lost control (a logical thread never came back)."""


class _LT:
    __slots__ = ('idx', 'name', 'fn', 'go', 'fin', 'ident', 'started', 'done',
                 'pending', 'result', 'armed', 'error', 'aborted', 'inline',
                 'waiting', 'stuck', 'unwinding')

    def __init__(self, idx, name, fn):
        self.idx = idx
        self.name = name
        self.fn = fn
        self.go = _thread.allocate_lock()
        self.go.acquire()
        self.fin = _thread.allocate_lock()   # released as the thread ends
        self.fin.acquire()
        self.ident = None
        self.started = False
        self.done = False
        self.pending = None     # ('acq', sem, block, timeout) | ('rel', sem)
        self.result = None
        self.armed = False
        self.error = None
        self.aborted = False
        self.inline = False     # executed by the harness thread itself
        self.waiting = False
        self.stuck = False
        self.unwinding = False


class Scheduler:
    """The baton is held by exactly one party at a time: a logical thread or
    the harness.  Whoever holds it when a scheduling decision is due takes
    the decision itself (``_next``) and either keeps running (no thread
    switch at all when the same thread continues) or hands the baton directly
    to the chosen thread.  The harness gets it back at quiescence.

    ``spawn`` makes a logical thread backed by a real thread; ``run_inline``
    lets the harness thread itself act as one more logical thread (same
    semantics, no thread to create; used for short probe scripts)."""

    def __init__(self, max_steps=20000, wait_s=60.0):
        self.threads = []
        self.base_count = _thread._count()
        self.ctl = _thread.allocate_lock()
        self.ctl.acquire()
        self.current = None
        self.prev = None
        self.aborting = False
        self.trace = []
        self.choices = []       # (n_enabled, offset chosen, per-offset cost)
        self.steps = 0
        self.max_steps = max_steps
        self.wait_s = wait_s
        self.overrun = False
        self.closed = False
        self.failure = None     # exception inside the scheduling code itself
        self.pruned = False
        self._schedule = None
        self._chooser = None
        self._si = 0
        self._record = True
        self._inline = None

    # -- harness side ------------------------------------------------------
    def spawn(self, fn, name=None):
        """Create a logical thread.  It starts at the next ``run``: all new
        threads first run up to their first semaphore operation, in creation
        order, before any transition is chosen (code before the first
        semaphore operation must not touch shared state)."""
        lt = _LT(len(self.threads), name or 't%d' % len(self.threads), fn)
        self.threads.append(lt)
        # raw threads: threading.Thread.start() costs two more context
        # switches (its started-handshake), which dominates a short case
        lt.ident = _thread.start_new_thread(self._body, (lt,))
        return lt

    def log(self, *event):
        """API-level event from the running logical thread (or the harness)."""
        cur = self.current
        self.trace.append(('api', cur.idx if cur is not None else -1) + event)

    def enabled(self):
        out = []
        for lt in self.threads:
            op = lt.pending
            if op is None or lt.done or op[0] == 'start':
                continue
            if op[0] == 'rel':
                out.append((lt, 'rel'))
            elif not op[2]:
                out.append((lt, 'take' if op[1].value > 0 else 'fail'))
            else:
                if op[1].value > 0:
                    out.append((lt, 'take'))
                if op[3] is not None and lt.armed:
                    out.append((lt, 'timeout'))
        return out

    def run(self, schedule=None, record=True, chooser=None, inline=None,
            inline_name=None):
        """Fire transitions until none is enabled.  Returns the number of
        schedule entries consumed.  Instead of a schedule a ``chooser(enabled,
        default_index, prev_enabled) -> index | None`` may take every decision
        (None = abandon this run: ``self.pruned``); the offsets it implies are
        recorded in ``self.choices`` like any other.

        ``inline``: a function to run as one more logical thread *on the
        calling thread* (same semantics, no thread to create).  Only for
        scripts that never legitimately sleep for ever: if the inline thread
        can never continue it is unwound (Abort) and stays in ``stuck()``."""
        self._schedule = schedule
        self._chooser = chooser
        self._si = 0
        self._record = record
        if inline is not None:
            self._run_inline(inline, inline_name)
        nxt = self._next()
        if nxt is not None:
            self._handover(nxt)
        self._check()
        return self._si

    def run_inline(self, fn, name=None):
        return self.run(None, record=False, inline=fn, inline_name=name)

    def _run_inline(self, fn, name):
        lt = _LT(len(self.threads), name or 't%d' % len(self.threads), fn)
        lt.inline = lt.started = True
        lt.ident = _thread.get_ident()
        lt.fin.release()
        self.threads.append(lt)
        # threads spawned earlier start first
        nxt = self._next_unstarted()
        self._inline = lt
        try:
            if nxt is not None:
                lt.pending = ('start',)
                lt.waiting = True
                self.current = nxt
                nxt.go.release()
                self._inline_wait(lt)
            self.current = lt
            try:
                fn()
                lt.done = True
            except Abort:
                pass
            except BaseException as exc:   # noqa - reported through lt.error
                lt.error = exc
                lt.done = True
        finally:
            lt.pending = None
            lt.unwinding = False
            self._inline = None
            self.current = None
        self._check()

    def stuck(self):
        return [lt for lt in self.threads if not lt.done]

    def close(self):
        """Unwind whatever is still blocked; join every thread."""
        if self.closed:
            return
        self.closed = True
        self.aborting = True
        # every simulated operation is inert from here on, so the threads may
        # unwind concurrently
        for lt in self.threads:
            if not lt.inline and not lt.done:
                lt.aborted = True
                lt.go.release()
        for lt in self.threads:
            if not lt.inline and not lt.fin.acquire(True, self.wait_s):
                raise SchedulerError('logical thread %s did not end' % lt.name)
        # ``fin`` is released by the last statement of the thread; wait until
        # the interpreter has really disposed of all of them
        deadline = time.monotonic() + self.wait_s
        spins = 0
        while _thread._count() > self.base_count:
            if time.monotonic() > deadline:
                raise SchedulerError('%d thread(s) outlive the case' % (
                    _thread._count() - self.base_count))
            spins += 1
            time.sleep(0 if spins < 50 else 0.0002)
        self._check()

    def __enter__(self):
        return self

    def __exit__(self, *exc):
        self.close()
        return False

    # -- internals -----------------------------------------------------------
    def _check(self):
        if self.failure is not None:
            raise SchedulerError('scheduler failed: %r' % (self.failure,))

    def _handover(self, lt):
        """harness -> logical thread; returns when the baton comes back"""
        self.current = lt
        lt.go.release()
        if not self.ctl.acquire(True, self.wait_s):
            raise SchedulerError('baton did not come back within %ss (last '
                                 'given to %s)' % (self.wait_s, lt.name))
        self.current = None

    def _inline_wait(self, lt):
        if not lt.go.acquire(True, self.wait_s):
            raise SchedulerError('baton did not come back to the inline '
                                 'thread within %ss' % self.wait_s)
        lt.waiting = False
        if lt.pending == ('start',):
            lt.pending = None

    def _next_unstarted(self):
        for lt in self.threads:
            if not lt.started:
                lt.started = True
                return lt
        return None

    def _next(self):
        """The next holder of the baton: a thread still to be started, else
        the thread whose transition was chosen (and applied), else None."""
        nxt = self._next_unstarted()
        if nxt is None:
            inl = self._inline
            if inl is not None and inl.pending == ('start',):
                return inl          # everybody started: the inline fn begins
            nxt = self._pick()
        return nxt

    def _pass(self, nxt):
        """give the baton away (called by a logical thread that cannot go on)"""
        if nxt is None:
            inl = self._inline
            if inl is not None and inl.waiting:
                inl.stuck = True    # quiescent while the inline thread waits
                self.current = inl
                inl.go.release()
            else:
                self.ctl.release()
        else:
            self.current = nxt
            nxt.go.release()

    def _pick(self):
        """Choose and apply the next transition; the thread it belongs to (it
        finds the outcome in ``lt.result``) or None at quiescence."""
        try:
            return self._pick_inner()
        except BaseException as exc:    # noqa - harness bug, never a finding
            self.failure = exc
            return None

    def _pick_inner(self):
        if self.pruned or self.overrun:
            return None
        en = self.enabled()
        if not en:
            return None
        if self.steps >= self.max_steps:
            self.overrun = True
            return None
        n = len(en)
        d = 0
        prev = self.prev
        prev_enabled = False
        if prev is not None:
            for k, (lt, _) in enumerate(en):
                if lt is prev:
                    d, prev_enabled = k, True
                    break
        x = 0
        if self._chooser is not None:
            j = self._chooser(en, d, prev_enabled)
            if j is None:
                self.pruned = True
                return None
            x = (j - d) % n
        elif n > 1:
            schedule = self._schedule
            if schedule is not None and self._si < len(schedule):
                x = schedule[self._si] % n
                self._si += 1
        if n > 1 and self._record:
            costs = tuple(
                1 if (prev_enabled and en[(d + o) % n][0] is not prev)
                else 0 for o in range(n))
            self.choices.append((n, x, costs))
        lt, kind = en[(d + x) % n]
        op = lt.pending
        sem = op[1]
        if kind == 'take':
            sem.value -= 1
            lt.result = True
            if sem.value == 0:
                for other in self.threads:
                    o = other.pending
                    if other is not lt and o is not None and o[0] == 'acq' \
                            and o[1] is sem and o[2]:
                        other.armed = True
        elif kind == 'fail' or kind == 'timeout':
            lt.result = False
        else:
            if sem.kind == sem.SEMAPHORE and sem.value >= sem.maxvalue:
                lt.result = ValueError(
                    'semaphore or lock released too many times')
                kind = 'rel-err'
            else:
                sem.value += 1
                lt.result = None
        self.trace.append(('sem', lt.idx, sem.name, kind))
        lt.pending = None
        self.prev = lt
        self.steps += 1
        return lt

    def _body(self, lt):
        lt.go.acquire()
        try:
            self._body_inner(lt)
        finally:
            lt.fin.release()

    def _body_inner(self, lt):
        try:
            if not self.aborting:
                lt.fn()
        except Abort:
            pass
        except BaseException as exc:   # noqa - reported through lt.error
            lt.error = exc
        finally:
            if not self.aborting:
                lt.done = True
                lt.pending = None
                self._pass(self._next())

    # -- called by SimSemLock from the running logical thread ------------------
    def inert(self):
        """simulated operations do nothing while a thread is being unwound"""
        if self.aborting:
            return True
        cur = self.current
        return cur is not None and cur.unwinding

    def _yield(self, op, armed=False):
        lt = self.current
        if lt is None or lt.ident != _thread.get_ident():
            raise SchedulerError('semaphore operation outside a logical thread')
        lt.pending = op
        lt.armed = armed
        nxt = self._next()
        if nxt is not lt:
            if lt.inline:
                if nxt is None:     # nobody can move and neither can we
                    lt.unwinding = True
                    raise Abort()
                lt.waiting = True
                self.current = nxt
                nxt.go.release()
                self._inline_wait(lt)
                if lt.stuck:
                    lt.unwinding = True
                    raise Abort()
            else:
                self._pass(nxt)
                lt.go.acquire()
                if self.aborting:
                    raise Abort()
        res = lt.result
        lt.result = None
        if isinstance(res, BaseException):
            raise res
        return res


class SimSemLock:
    """Specification of the C SemLock: a counting semaphore with the
    per-object ``count`` / ``last owner`` bookkeeping and the recursive-mutex
    kind (Modules/_multiprocessing/semaphore.c)."""

    RECURSIVE_MUTEX, SEMAPHORE = 0, 1

    def __init__(self, sched, kind, value, maxvalue, name):
        self.sched = sched
        self.kind = kind
        self.value = value
        self.maxvalue = maxvalue
        self.name = name
        self.count = 0
        self.owner = None
        self.role = None

    def acquire(self, block=True, timeout=None):
        s = self.sched
        if s.inert():
            return True
        me = s.current
        if self.kind == self.RECURSIVE_MUTEX and self.count > 0 \
                and self.owner is me:
            self.count += 1
            return True
        block = bool(block)
        if not block:
            timeout = None
        got = s._yield(('acq', self, block, timeout),
                       armed=block and self.value == 0)
        if got:
            self.count += 1
            self.owner = me
        return got

    def release(self):
        s = self.sched
        if s.inert():
            return
        if self.kind == self.RECURSIVE_MUTEX:
            if not (self.count > 0 and self.owner is s.current):
                raise AssertionError('attempt to release recursive lock '
                                     'not owned by thread')
            if self.count > 1:
                self.count -= 1
                return
        s._yield(('rel', self))
        self.count -= 1

    def __enter__(self):
        return self.acquire()

    def __exit__(self, *args):
        self.release()

    def _count(self):
        return self.count

    def _is_mine(self):
        return self.count > 0 and self.owner is self.sched.current

    def _get_value(self):
        return self.value

    def _is_zero(self):
        return self.value == 0

    def _after_fork(self):
        self.count = 0


class SimCtx:
    """Stands in for a billiard context: hands out billiard's own wrapper
    objects around simulated semaphores, and the real Condition / Event."""

    def __init__(self, sched):
        from billiard import synchronize
        self.sched = sched
        self.sync = synchronize
        self.sems = []

    def _wrap(self, cls, kind, value, maxvalue, prefix):
        obj = cls.__new__(cls)          # as SemLock.__setstate__ does
        sl = SimSemLock(self.sched, kind, value, maxvalue,
                        '%s%d' % (prefix, len(self.sems)))
        self.sems.append(sl)
        obj._semlock = sl
        obj._make_methods()
        return obj

    def get_context(self, method=None):
        return self

    def get_start_method(self, allow_none=False):
        return 'sim'

    def Lock(self):
        return self._wrap(self.sync.Lock, self.sync.SEMAPHORE, 1, 1, 'lock')

    def RLock(self):
        return self._wrap(self.sync.RLock, self.sync.RECURSIVE_MUTEX, 1, 1,
                          'rlock')

    def Semaphore(self, value=1):
        return self._wrap(self.sync.Semaphore, self.sync.SEMAPHORE, value,
                          self.sync.SEM_VALUE_MAX, 'sem')

    def BoundedSemaphore(self, value=1):
        return self._wrap(self.sync.BoundedSemaphore, self.sync.SEMAPHORE,
                          value, value, 'bsem')

    def Condition(self, lock=None):
        return self.sync.Condition(lock, ctx=self)

    def Event(self):
        return self.sync.Event(ctx=self)


# ---------------------------------------------------------------------------
# depth-first enumeration of schedules by replay, with sleep sets
# ---------------------------------------------------------------------------

def _key(lt, kind):
    sem = lt.pending[1]
    if kind == 'rel' and sem.maxvalue >= _UNBOUNDED:
        kind = 'relu'           # a post that cannot hit the bound
    return (lt.idx, kind, sem.name)


_UNBOUNDED = 2 ** 30


def independent(u, t):
    """Transitions of different threads commute when they touch different
    semaphores; a "timeout fires" transition of an armed thread neither reads
    nor writes the semaphore, so it commutes with everything another thread
    does; two posts to the same unbounded semaphore commute."""
    if u[0] == t[0]:
        return False
    if u[2] != t[2] or u[1] == 'timeout' or t[1] == 'timeout':
        return True
    return u[1] == 'relu' and t[1] == 'relu'


def dfs(run, bound=None, limit=None, por=True):
    """Enumerate the schedules of a program.

    ``run(chooser)`` executes the program once, passing ``chooser`` to
    ``Scheduler.run``, and returns ``(scheduler, payload)``.  Yields
    ``(schedule, payload)`` for every complete execution, ``schedule`` being
    the offset list that reproduces it through ``Scheduler.run(schedule)``.

    por=True: sleep sets - of all interleavings that differ only in the order
    of independent transitions (see ``independent``) one representative is
    executed; runs that could only repeat an explored one are abandoned.
    por=False: every interleaving.
    bound: visit only schedules with at most that many preemptions (switching
    away from a thread that could have continued).
    limit: stop after that many executions; then the last item yielded is
    ``(None, None)``."""
    stack = [((), frozenset(), 0)]    # path of keys, sleep set after it, preemptions
    runs = 0
    stats = {'complete': 0, 'abandoned': 0}
    while stack:
        path, sleep0, used0 = stack.pop()
        taken = []
        state = {'sleep': set(sleep0), 'used': used0}

        def chooser(en, d, prev_enabled):
            n = len(en)
            keys = [_key(lt, kind) for lt, kind in en]
            k = len(taken)
            if k < len(path):
                j = keys.index(path[k])
                taken.append(keys[j])
                return j
            z = state['sleep']
            order = [(d + o) % n for o in range(n)]
            prev = en[d][0] if prev_enabled else None
            cands = []
            for j in order:
                if keys[j] in z:
                    continue
                cost = 1 if (prev is not None and en[j][0] is not prev) else 0
                if bound is not None and state['used'] + cost > bound:
                    continue
                cands.append((j, cost))
            if not cands:
                return None
            before = set(z) if por else set()
            here = tuple(taken)
            first = True
            for j, cost in cands:
                if not first:
                    sl = frozenset(u for u in before
                                   if independent(u, keys[j])) if por \
                        else frozenset()
                    stack.append((here + (keys[j],), sl, state['used'] + cost))
                first = False
                if por:
                    before.add(keys[j])
            j0, cost0 = cands[0]
            if por:
                state['sleep'] = set(u for u in z if independent(u, keys[j0]))
            state['used'] += cost0
            taken.append(keys[j0])
            return j0

        sched, payload = run(chooser)
        runs += 1
        if sched.pruned:
            stats['abandoned'] += 1
        else:
            stats['complete'] += 1
            yield [c[1] for c in sched.choices], payload
        if limit is not None and runs >= limit and stack:
            stats['truncated'] = True
            yield None, stats
            return
    yield None, stats
