"""C20 part 'handoff': a proxy handed to a child process as part of its Process
object (args), for every start method.  The child holds a proxy of its own: the
referent must stay alive while the child uses it even when the parent releases
every proxy it holds itself, and must be disposed of once the child is gone too.

A case: start method, 0-2 extra parent copies of the proxy, 1-2 children started
one after the other (each gets the proxy in its args), whether the parent drops
all of its proxies while the child holds its own, 0-3 appends before.
"""
import gc
import pickle

from hypothesis import strategies as st

from vlib.core import bad, inconclusive, ok


def cases():
    return st.fixed_dictionaries({
        'method': st.sampled_from(['fork', 'spawn', 'forkserver', 'spawn',
                                   'forkserver']),
        'pre': st.lists(st.integers(0, 99), max_size=3),
        'copies': st.integers(0, 2),
        'children': st.lists(st.fixed_dictionaries({
            'v': st.integers(100, 199),
            'parent_drops': st.booleans(),
        }), min_size=1, max_size=2),
    })


def execute(case):
    import billiard
    from billiard.managers import SyncManager
    from engines import c20child
    ctx = billiard.get_context(case['method'])
    mgr = SyncManager()
    mgr.start()
    labels = {case['method']}
    procs = []
    try:
        model = list(case['pre'])
        held = [mgr.list(list(case['pre']))]
        for _ in range(case['copies']):
            held.append(pickle.loads(pickle.dumps(held[0])))
        for ch in case['children']:
            if not held:
                # the referent is gone with the last proxy (checked below)
                model = []
                held.append(mgr.list([]))
            a, b = ctx.Pipe(True)
            p = ctx.Process(target=c20child.handoff_child,
                            args=(held[0], ch['v'], b))
            p.daemon = True
            p.start()
            procs.append(p)
            b.close()
            # the Process object would keep the parent's proxy alive
            p._args = ()
            if not a.poll(90):
                return inconclusive('child did not come up', sorted(labels))
            msg = a.recv()
            if msg[0] != 'ready':
                return bad('C20/handoff/child-failed', '%s child: %s' % (
                    case['method'], msg[1]))
            if ch['parent_drops']:
                del held[:]
                gc.collect()
                labels.add('child_is_only_holder')
            n = mgr._number_of_objects()
            if n != 1:
                return bad('C20/handoff/referent-gone', '%s child holds a proxy '
                           '(parent proxies: %d) but the server holds %d objects'
                           % (case['method'], len(held), n))
            a.send('go')
            if not a.poll(90):
                return inconclusive('child did not answer', sorted(labels))
            msg = a.recv()
            model.append(ch['v'])
            if msg[0] != 'ok':
                return bad('C20/handoff/referent-gone', '%s child, parent proxies '
                           '%d: operation through the child\'s proxy failed: %s' % (
                               case['method'], len(held), msg[1]))
            if msg[1] != model:
                return bad('C20/handoff/state', 'child read %r, model %r' % (
                    msg[1], model))
            a.send('bye')
            p.join(60)
            a.close()
            if p.is_alive():
                return inconclusive('child did not exit', sorted(labels))
            want = 1 if held else 0
            n = mgr._number_of_objects()
            if n != want:
                return bad('C20/handoff/object-count', 'after the %s child left: '
                           '%d objects on the server, parent proxies %d' % (
                               case['method'], n, len(held)))
            if held and list(held[0]) != model:
                return bad('C20/handoff/state', 'parent reads %r, model %r' % (
                    list(held[0]), model))
        del held[:]
        gc.collect()
        if mgr._number_of_objects() != 0:
            return bad('C20/handoff/not-disposed', '%d objects left after the last '
                       'proxy was released' % mgr._number_of_objects())
    finally:
        for p in procs:
            if p.is_alive():
                p.terminate()
                p.join(10)
        try:
            mgr.shutdown()
        except Exception:
            pass
    return ok('child_is_only_holder' in labels, sorted(labels))
