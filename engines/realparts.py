"""Generated scenarios on real pools (E3): strategies + oracles per property.

Every ``execute_*`` takes a JSON scenario description (small, shrinkable), turns it
into an E3 scenario, runs it in a watchdogged child and judges the observations.
Wall-clock bounds are only used where time is the property, with wide slack (the
box may be heavily loaded); a watchdog kill is a violation only for C07/C08.
"""
import collections

from hypothesis import strategies as st

from engines.realpool import main_thread_in, run_scenario
from vlib.core import bad, inconclusive, ok

SLACK = 25.0          # generous upper slack for "eventually within a bound"


def _harness_trouble(obs, prop='C01'):
    if obs.get('no_output') and not obs.get('hung') and obs.get('rc') == 1 and \
            'crashed' in obs.get('child_log', ''):
        # a pool thread died and PoolThread.run ended the host with os._exit(1)
        import re
        m = re.search(r"Thread '?(\w+)'? crashed: (\w+)", obs['child_log'])
        what = '%s/%s' % (m.group(1), m.group(2)) if m else 'unknown'
        return bad('%s/real-host-killed/%s' % (prop, what),
                   obs['child_log'][-1500:])
    if obs.get('no_output') and not obs.get('hung'):
        return inconclusive('child produced no output: %s' % obs.get(
            'child_log', '')[-300:])
    return None


def _exec_by(obs, kind):
    return [e for e in obs.get('exec', []) if e and e[0] == kind]


def _raised_steps(obs, ops):
    return [s for s in obs.get('steps', []) if s['op'][0] in ops and 'raised' in s]


def _step(obs, op, nth=0):
    hits = [s for s in obs.get('steps', []) if s['op'][0] == op]
    return hits[nth] if len(hits) > nth else None


# ---------------------------------------------------------------------------
# C08 terminate
# ---------------------------------------------------------------------------

def c08_cases():
    return st.fixed_dictionaries({
        'procs': st.integers(1, 4),
        'threads': st.sampled_from([True, True, True, False]),
        'running': st.lists(st.sampled_from(['sleep', 'sleep', 'stubborn']),
                            min_size=0, max_size=4),
        'queued': st.integers(0, 8),
        'done_before': st.integers(0, 3),
        'action': st.sampled_from(['terminate', 'terminate', 'terminate2',
                                   'del_pool', 'terminate_job', 'sigterm',
                                   'hardlimit', 'tjob_terminate']),
        # several idle workers are told to exit shortly before the call, so that
        # the supervisor is busy replacing them (with a slow on_process_up
        # callback) when terminate() arrives
        'mass': st.sampled_from([0, 0, 2, 3, 3]),
        # the call arrives while the supervisor is inside start() of a
        # replacement worker (its fork takes 1 s): listed, no process yet
        'midfork': st.sampled_from([False, False, False, True]),
        # the task feeder is in the middle of a lazily produced imap whose
        # input stalls when the call arrives
        'lazy': st.sampled_from([False, False, True]),
    })


def execute_c08(case):
    procs = case['procs']
    threads = case['threads']
    if case.get('mass') and threads:
        # replacing `mass` workers with a 0.5 s on_process_up callback keeps the
        # supervisor inside its replacement loop for mass x 0.5 s; it notices the
        # exits within one 0.8 s period, so a call 0.9 s after the kills lands
        # between two of its forks
        procs = max(procs, case['mass'] + 1)
        case = dict(case, running=case['running'][:1])
    steps = []
    done = ['d%d' % i for i in range(case['done_before'])] if threads else []
    for t in done:
        steps.append(['apply', t, [['ret', 7]], {}])
    for t in done:
        steps.append(['wait', t, 30])
    running = case['running'][:procs]
    for i, kind in enumerate(running):
        # action hardlimit: the termination signal comes from the time-limit
        # scanner (TERM, then KILL 0.1 s later if the worker is still there)
        o = {'hard': 1} if case['action'] == 'hardlimit' and i == 0 \
            and threads else {}
        if case['action'] == 'tjob_terminate' and i == 0 and threads:
            # a task that outlives every bound and swallows the first
            # termination request (terminate_job); terminate() comes while it
            # is still busy
            steps.append(['apply', 'r0', [['mark', 'r0'], ['stubborn', 100]], {}])
        elif kind == 'sleep':
            steps.append(['apply', 'r%d' % i, [['mark', 'r%d' % i], ['sleep', 40]],
                          o])
        else:
            steps.append(['apply', 'r%d' % i, [['mark', 'r%d' % i],
                                               ['stubborn', 2.5], ['ret', 1]], o])
    for i in range(len(running)):
        steps.append(['wait_mark', 'r%d' % i, 30])
    queued = case['queued']
    for i in range(queued):
        steps.append(['apply', 'q%d' % i, [['sleep', 0.05], ['ret', i]], {}])
    lazy = bool(case.get('lazy')) and threads
    if lazy:
        steps.append(['imap_lazy', 'lz', [['retx', 1]], 2, 6.0, 2,
                      'imap' if case['procs'] % 2 else 'imap_unordered'])
    action = case['action']
    if action in ('terminate_job', 'sigterm', 'hardlimit',
                  'tjob_terminate') and not running:
        action = 'terminate'
    if action == 'hardlimit' and not threads:
        action = 'terminate'    # nobody runs the time-limit scanner there
    if action == 'tjob_terminate' and not threads:
        # workers of a pool without helper threads keep their termination
        # handler installed, so a task that swallows every BaseException is
        # never ended by SIGTERM and terminate() lasts as long as the task
        # does - a task outside "whatever the workers are doing"; see DESIGN
        action = 'terminate_job'
    # let freshly started workers reach their idle state (blocked in the read of
    # the task queue, holding its read lock)
    steps.append(['sleep', 0.6])
    mass = case.get('mass', 0) if threads else 0
    midfork = bool(case.get('midfork')) and threads and procs >= 2
    if midfork:
        mass = 0
        steps += [['kill_idle_n', 1, 15], ['wait_starts', 1, 20], ['sleep', 0.2]]
    if mass:
        # the call is made right after the first replacement came up, i.e.
        # while the supervisor sits in that worker's (slow) on_process_up
        # callback with mass-1 forks still to do - never while a fork is in
        # flight (that is finding D21, see DESIGN)
        steps += [['kill_idle_n', mass, 15], ['wait_ups', 1, 20],
                  ['sleep', 0.1]]
    steps.append(['snapshot', 'before'])
    if action == 'terminate':
        steps.append(['terminate'])
    elif action == 'terminate2':
        steps += [['terminate'], ['terminate']]
    elif action == 'del_pool':
        steps.append(['del_pool'])
    elif action == 'terminate_job':
        steps += [['terminate_job', 'r0'], ['sleep', 6.0], ['snapshot', 'after'],
                  ['terminate']]
    elif action == 'sigterm':
        steps += [['sigterm_worker', 'r0'], ['sleep', 6.0], ['snapshot', 'after'],
                  ['terminate']]
    elif action == 'hardlimit':
        steps += [['wait', 'r0', 30], ['sleep', 3.0], ['snapshot', 'after'],
                  ['terminate']]
    elif action == 'tjob_terminate':
        steps += [['terminate_job', 'r0'], ['sleep', 0.5], ['terminate']]
    scen = {'pool': {'procs': procs, 'threads': threads, 'lost': 0.5,
                     'slow_up': 0.5 if mass else 0,
                     'slow_start': 1.0 if midfork else 0},
            'steps': steps, 'watch': 75, 'settle': 2.5}
    obs = run_scenario(scen)
    labels = ['action=' + action, 'threads=%s' % threads]
    if mass:
        labels.append('supervisor_replacing')
    if midfork:
        labels.append('replacement_fork_in_flight')
    if lazy:
        labels.append('feeder_inside_lazy_imap')
    nontrivial = bool(running) or lazy
    if running:
        labels.append('worker_in_task')
    if 'stubborn' in running:
        labels.append('stubborn_task')
    t = _harness_trouble(obs, 'C08')
    if t:
        return t
    # workers that came up after terminate() had started (the event log survives
    # a watchdog kill): one fork may have been in flight, more means the
    # supervisor went on forking after the pool was told to terminate
    ev = obs.get('events', [])
    t_term = [float(e[2]) for e in ev if e[:2] == ['step', 'terminate']]
    late_ups = [float(e[2]) - t_term[0] for e in ev
                if e[0] == 'up' and t_term and float(e[2]) > t_term[0] + 0.05]
    if len(late_ups) >= 2:
        # not a violation in itself (the statement bounds the time and demands
        # that nothing survives; terminate() waits for the supervisor since
        # 6111974 and then signals whatever it started): recorded only
        labels.append('workers_started_after_terminate_began')
    if obs['hung']:
        if main_thread_in(obs['stacks'], ['terminate', '_terminate_pool',
                                          'del_pool', 'collect']):
            where = 'other'
            ws = ' '.join(obs.get('worker_stacks', {}).values())
            per = list(obs.get('worker_stacks', {}).values())
            waiting = [w for w in per if '__enter__' in w and 'synchronize.py' in w]
            holding = [w for w in per if 'recv_bytes' in w or
                       ('get_payload' in w and '__enter__' not in w)]
            if mass and waiting and not holding and \
                    '_help_stuff_finish' in obs['stacks']:
                # open finding D26: every live worker - and terminate() itself -
                # waits for the task queue's read lock and nobody alive holds it:
                # one of the idle workers that were told to exit died between
                # acquiring the lock and entering the `with` body (the pending
                # SIGTERM is raised in SemLock.__enter__'s Python frame)
                return bad('C08/terminate-hangs/queue-lock-leaked-by-signalled-'
                           'idle-worker', 'terminate() did not return within %ss; '
                           'live workers all wait for the read lock, none holds '
                           'it\n%s\nworkers:\n%s' % (
                               scen['watch'], obs['stacks'][-1200:], ws[-1500:]),
                           nontrivial, labels)
            if '__enter__' in ws and 'synchronize.py' in ws:
                where = 'workers-blocked-on-queue-lock'
                # D21: terminate() raced the supervisor's replacement of
                # workers (at most the one fork that was in flight came after)
                if mass or midfork:
                    where = 'replacement-race'
            return bad('C08/terminate-hangs/%s' % where,
                       'terminate() did not return within %ss\n%s\nworkers:\n%s' % (
                           scen['watch'], obs['stacks'][-1500:], ws[-1500:]),
                       nontrivial, labels)
        return inconclusive('watchdog fired outside terminate(): %s' % (
            obs['stacks'][-400:],), labels)
    raised = _raised_steps(obs, ('terminate', 'del_pool', 'terminate_job'))
    if raised:
        return bad('C08/raised/%s' % raised[0]['op'][0], raised[0]['raised'],
                   nontrivial, labels)
    ts = [s for s in obs['steps'] if s['op'][0] in ('terminate', 'del_pool')]
    for s in ts:
        if s['t_end'] - s['t_start'] > 45:
            return bad('C08/terminate-slow', '%s took %.1fs' % (
                s['op'][0], s['t_end'] - s['t_start']), nontrivial, labels)
    if action == 'del_pool':
        # "letting the pool be garbage collected is harmless": no exception, no
        # hang; whether GC ends the workers is not part of the statement
        return ok(nontrivial, labels)
    if obs.get('children_alive') or obs.get('group_leftovers'):
        return bad('C08/workers-survive', 'after terminate(): children %r, group '
                   'leftovers %r' % (obs.get('children_alive'),
                                     obs.get('group_leftovers')), nontrivial, labels)
    if obs.get('threads_alive'):
        return bad('C08/threads-survive', 'threads alive 2.5 s after terminate(): '
                   '%r' % (obs['threads_alive'],), nontrivial, labels)
    for tname in done:
        out = obs['jobs'].get(tname, {}).get('outcome')
        if out != {'ok': True, 'value': 7}:
            return bad('C08/result-lost', 'job %s delivered before terminate() now '
                       'reads %r' % (tname, out), nontrivial, labels)
    if action in ('terminate_job', 'sigterm'):
        st_ = _step(obs, 'terminate_job' if action == 'terminate_job'
                    else 'sigterm_worker')
        pid = st_.get('pid')
        if not pid:
            return inconclusive('victim pid unknown', labels)
        t_sig = st_['t_end']
        after = obs['snapshots'].get('after', {})
        if pid in after.get('pids', []):
            return bad('C08/signalled-worker-stays', 'worker %d still in the pool '
                       '6 s after the termination signal' % pid, nontrivial, labels)
        if not any(int(e[0]) == pid for e in obs.get('exitcb', [])):
            return bad('C08/no-exit-callback', 'worker %d exited without running '
                       'its exit callback (exit callbacks seen: %r)' % (
                           pid, obs.get('exitcb')), nontrivial, labels)
        later = [e for e in _exec_by(obs, 'start')
                 if int(e[2]) == pid and float(e[3]) > t_sig + 0.001]
        if later:
            return bad('C08/took-further-jobs', 'worker %d started %r after the '
                       'termination signal' % (pid, later), nontrivial, labels)
    if action == 'hardlimit':
        rec = obs['jobs'].get('r0', {})
        out = rec.get('outcome') or {}
        if not rec.get('ready') or out.get('type') != 'TimeLimitExceeded':
            return bad('C08/limit-not-enforced', 'job r0 (hard limit 1 s): %r' % (
                out,), nontrivial, labels)
        mine = [e for e in _exec_by(obs, 'start') if e[1] == 'r0']
        if not mine or not rec.get('cb'):
            return inconclusive('victim pid / failure time unknown', labels)
        pid, t_fail = int(mine[0][2]), float(rec['cb'][0][1])
        after = obs['snapshots'].get('after', {})
        if pid in after.get('pids', []):
            return bad('C08/signalled-worker-stays', 'worker %d still in the pool '
                       '3 s after its job hit the hard limit' % pid, nontrivial, labels)
        # the scanner fails the job first and signals the worker next; a task
        # this worker starts more than 1.5 s after that was taken by a worker
        # that had been told to go (the KILL follows the TERM by 0.1 s).  The
        # exit callback is not demanded here: 0.1 s is not always enough for it
        later = [e for e in _exec_by(obs, 'start')
                 if int(e[2]) == pid and float(e[3]) > t_fail + 1.5]
        if later:
            return bad('C08/took-further-jobs', 'worker %d started %r after the '
                       'hard limit of its job' % (pid, later), nontrivial, labels)
    return ok(nontrivial, labels)


# ---------------------------------------------------------------------------
# C07 close/join
# ---------------------------------------------------------------------------

_JOB = st.one_of(
    st.tuples(st.just('apply'), st.sampled_from([0, 0.02, 0.1, 0.3])),
    st.tuples(st.just('map'), st.integers(0, 9), st.sampled_from([None, 1, 2, 4]),
              st.sampled_from([0, 0.02, 0.05])),
    st.tuples(st.just('imap'), st.integers(0, 6), st.sampled_from([0, 0.02, 0.05])),
    st.tuples(st.just('imap_unordered'), st.integers(0, 6),
              st.sampled_from([0, 0.02])),
)


def c07_cases():
    return st.fixed_dictionaries({
        'procs': st.integers(1, 4),
        'threads': st.sampled_from([True, True, True, False]),
        'maxtasks': st.sampled_from([None, None, 200]),
        'jobs': st.lists(_JOB.map(list), min_size=0, max_size=10),
        'close_after': st.sampled_from([0, 0, 0.05, 0.3, 'all']),
        # True: an idle worker is killed and replaced before any job is offered;
        # 'race': close() is called while the supervisor is replacing it (the
        # dead worker off the list, the new one - slow to build - not yet on it)
        'replace': st.sampled_from([False, True, True, 'race']),
    })


def execute_c07(case):
    threads = case['threads']
    steps = []
    expect = {}
    work = 0.0
    race = case.get('replace') == 'race' and threads
    if race:
        steps += [['sleep', 1.6], ['kill_idle', 15],
                  ['wait_short', case['procs'], 20]]
    elif case.get('replace') and threads:
        # a worker is killed while idle and replaced before any job is offered
        steps += [['sleep', 0.3], ['kill_idle', 15], ['sleep', 0.2],
                  ['wait_size', case['procs'], 20]]
    for i, j in enumerate(case['jobs']):
        tag = 'j%d' % i
        if j[0] == 'apply' or not threads:
            d = j[-1] if j[0] == 'apply' else 0
            steps.append(['apply', tag, [['sleep', d], ['ret', i]], {}])
            expect[tag] = ('apply', i)
            work += d
        elif j[0] == 'map':
            _, n, cs, d = j
            steps.append(['map', tag, [['sleep', d], ['retx', i]], n, cs, 'map'])
            expect[tag] = ('map', [[x, i] for x in range(n)])
            work += d * n
        else:
            kind, n, d = j
            steps.append(['map', tag, [['sleep', d], ['retx', i]], n, 1, kind])
            expect[tag] = (kind, [[x, i] for x in range(n)])
            work += d * n
    if case['close_after'] == 'all':
        # (without helper threads nothing resolves handles before join())
        steps.append(['wait_all', 60] if threads else ['sleep', 0.5])
    elif case['close_after']:
        steps.append(['sleep', case['close_after']])
    steps += [['snapshot', 'before'], ['close'], ['join'],
              ['apply', 'late', [['ret', 1]], {}],
              ['map', 'late_m', [['ret', 1]], 2, 1, 'map']]
    for tag, (kind, _) in expect.items():
        if kind in ('imap', 'imap_unordered'):
            steps.append(['drain', tag, 5])
    scen = {'pool': {'procs': case['procs'], 'threads': threads,
                     'maxtasks': case['maxtasks'],
                     'slow_create': 1.5 if race else 0},
            'steps': steps, 'watch': 90, 'settle': 0.5}
    obs = run_scenario(scen)
    labels = ['threads=%s' % threads, 'close_after=%s' % case['close_after']]
    if race:
        labels.append('close_during_replacement')
    nontrivial = any(k != 'apply' for k, _ in expect.values())
    t = _harness_trouble(obs, 'C07')
    if t:
        return t
    if obs['hung']:
        if main_thread_in(obs['stacks'], ['join', 'close']):
            return bad('C07/join-hangs', 'close()/join() did not return within '
                       '%ss\n%s' % (scen['watch'], obs['stacks'][-1500:]),
                       nontrivial, labels)
        return inconclusive('watchdog fired outside join()', labels)
    raised = _raised_steps(obs, ('close', 'join'))
    if raised:
        return bad('C07/raised/%s' % raised[0]['op'][0], raised[0]['raised'],
                   nontrivial, labels)
    j = _step(obs, 'join')
    c = _step(obs, 'close')
    dur = j['t_end'] - c['t_start']
    unfinished = 0
    for tag, (kind, want) in expect.items():
        rec = obs['jobs'].get(tag, {})
        cbs = rec.get('cb', [])
        if kind in ('apply', 'map') and not (
                cbs and cbs[0][1] < c['t_start']):
            unfinished += 1
    if unfinished:
        nontrivial = True
        labels.append('unfinished_at_close')
    if dur > work / case['procs'] + 20.0:
        return bad('C07/join-slow', 'close()+join() took %.1fs for %.1fs of work on '
                   '%d workers (the 30 s result-consumption guard?)' % (
                       dur, work, case['procs']), nontrivial, labels)
    for tag, (kind, want) in expect.items():
        rec = obs['jobs'].get(tag, {})
        if kind in ('apply', 'map'):
            out = rec.get('outcome')
            if not rec.get('ready'):
                return bad('C07/unresolved/%s' % kind, 'job %s not resolved after '
                           'join()' % tag, nontrivial, labels)
            if out != {'ok': True, 'value': want}:
                return bad('C07/wrong-result/%s' % kind, 'job %s: %r, expected %r'
                           % (tag, out, want), nontrivial, labels)
        else:
            items = rec.get('items', [])
            vals = [it[1] for it in items if it[0] == 'ok']
            if not items or items[-1][0] != 'stop':
                return bad('C07/unresolved/%s' % kind, 'iterator %s after join(): '
                           '%r' % (tag, items[-2:]), nontrivial, labels)
            if (vals != want) if kind == 'imap' else (
                    sorted(map(repr, vals)) != sorted(map(repr, want))):
                return bad('C07/wrong-result/%s' % kind, 'iterator %s yielded %r, '
                           'expected %r' % (tag, vals, want), nontrivial, labels)
    if obs.get('children_alive') or obs.get('group_leftovers'):
        return bad('C07/workers-survive', 'after join(): children %r leftovers %r'
                   % (obs.get('children_alive'), obs.get('group_leftovers')),
                   nontrivial, labels)
    h = obs.get('handlers_alive', {})
    alive = [k for k in ('supervisor', 'task', 'result') if h.get(k)]
    if alive:
        return bad('C07/threads-survive', 'pool threads alive after join(): %r'
                   % (alive,), nontrivial, labels)
    for tag in ('late', 'late_m'):
        rec = obs['jobs'].get(tag, {})
        if rec.get('submitted'):
            return bad('C07/accepted-after-close', '%s was handed a result object '
                       'after close()' % tag, nontrivial, labels)
        if any(e[1].startswith(tag + '.') or e[1] == tag
               for e in _exec_by(obs, 'start')):
            return bad('C07/executed-after-close', '%s ran' % tag, nontrivial,
                       labels)
    return ok(nontrivial, labels)


# ---------------------------------------------------------------------------
# C04 worker lost (real)
# ---------------------------------------------------------------------------

_DEATH = st.one_of(
    st.tuples(st.just('kill'), st.sampled_from([9, 11, 6, 7, 8, 15, 1, 3])),
    st.tuples(st.just('exit'), st.sampled_from([1, 2, 70, 155, 0, 255])),
)


def c04_cases():
    return st.fixed_dictionaries({
        'procs': st.integers(1, 4),
        'lost': st.sampled_from([0.3, 0.5, 1.0]),
        'victims': st.lists(st.tuples(_DEATH, st.sampled_from([0, 0.05, 0.2])),
                            min_size=1, max_size=3),
        'others': st.integers(2, 8),
        'kind': st.sampled_from(['apply', 'apply', 'map']),
    })


def execute_c04(case):
    L = case['lost']
    steps = []
    for i in range(case['others'] // 2):
        steps.append(['apply', 'o%d' % i, [['sleep', 0.1], ['ret', i]], {}])
    for i, (death, off) in enumerate(case['victims']):
        steps.append(['apply', 'v%d' % i, [['sleep', off], list(death)], {}])
    if case['kind'] == 'map':
        steps.append(['map', 'm', [['sleep', 0.02], ['retx', 9]], 6, 2, 'map'])
    for i in range(case['others'] // 2, case['others']):
        steps.append(['apply', 'o%d' % i, [['sleep', 0.05], ['ret', i]], {}])
    steps += [['wait_all', 60], ['wait_size', case['procs'], 20],
              ['snapshot', 'after'], ['terminate']]
    scen = {'pool': {'procs': case['procs'], 'lost': L}, 'steps': steps,
            'watch': 120, 'settle': 0.2}
    obs = run_scenario(scen)
    labels = ['victims=%d' % len(case['victims'])]
    nontrivial = True
    t = _harness_trouble(obs, 'C04')
    if t:
        return t
    if obs['hung']:
        return inconclusive('watchdog: %s' % obs['stacks'][-300:], labels)
    dies = {e[1]: (int(e[2]), float(e[3])) for e in _exec_by(obs, 'die')}
    for i, (death, off) in enumerate(case['victims']):
        tag = 'v%d' % i
        rec = obs['jobs'].get(tag, {})
        out = rec.get('outcome')
        if tag not in dies:
            return inconclusive('victim %s never ran' % tag, labels)
        pid, t_die = dies[tag]
        # the schedule of the repaired finding D7: the supervisor reaped the
        # victim before the result handler consumed its ACK (judged like any
        # other loss since 1b6a392)
        t_down = [d[2] for d in obs.get('downs', []) if d[0] == pid]
        acc = rec.get('accept')
        if t_down and (not acc or acc[2] > t_down[0]):
            labels.append('ack_consumed_after_reap')
        if not rec.get('ready'):
            return bad('C04/real-unresolved', 'job %s whose worker died (%r) is '
                       'unresolved 60 s later' % (tag, death), nontrivial, labels)
        if out.get('type') != 'WorkerLostError':
            return bad('C04/real-wrong-outcome', 'job %s whose worker died (%r): %r'
                       % (tag, death, out), nontrivial, labels)
        want = ('signal %d' % death[1]) if death[0] == 'kill' \
            else ('exitcode %d' % death[1])
        if want not in out['args']:
            return bad('C04/real-status-text', 'job %s: %s does not name %r' % (
                tag, out['args'], want), nontrivial, labels)
        t_err = rec['cb'][0][1]
        if t_err < t_die + L - 0.005:
            return bad('C04/real-early', 'job %s failed %.3fs after its worker '
                       'died, lost timeout %.2f' % (tag, t_err - t_die, L),
                       nontrivial, labels)
        if t_err > t_die + L + SLACK:
            return bad('C04/real-late', 'job %s failed %.1fs after its worker died'
                       % (tag, t_err - t_die), nontrivial, labels)
        if pid in obs['snapshots']['after']['pids']:
            return bad('C04/real-victim-listed', 'dead worker %d still in the pool'
                       % pid, nontrivial, labels)
    for tag, rec in obs['jobs'].items():
        if len(rec.get('cb', [])) > 1:
            return bad('C04/real-callbacks-twice', 'job %s: result callbacks %r' % (
                tag, rec['cb']), nontrivial, labels)
    for i in range(case['others']):
        out = obs['jobs'].get('o%d' % i, {}).get('outcome')
        if out != {'ok': True, 'value': i}:
            return bad('C04/real-bystander', 'job o%d: %r' % (i, out), nontrivial,
                       labels)
    if case['kind'] == 'map':
        out = obs['jobs'].get('m', {}).get('outcome')
        if out != {'ok': True, 'value': [[x, 9] for x in range(6)]}:
            return bad('C04/real-bystander', 'map: %r' % (out,), nontrivial, labels)
    snap = obs['snapshots']['after']
    if len(snap['pids']) != case['procs']:
        return bad('C04/real-not-replaced', 'pool has %d workers for size %d one '
                   'second after everything resolved' % (len(snap['pids']),
                                                         case['procs']),
                   nontrivial, labels)
    return ok(nontrivial, labels)


def c04_lateack_cases():
    """the supervisor reaps a dead worker BEFORE the result handler consumes the
    ACK of the job it was running (a pool without helper threads, driven by hand
    in exactly that order)"""
    return st.fixed_dictionaries({
        'procs': st.integers(1, 3),
        'lost': st.sampled_from([0.3, 0.5, 1.0]),
        'death': _DEATH,
        'others': st.integers(0, 2),
    })


def execute_c04_lateack(case):
    L = case['lost']
    death = case['death']
    steps = [['apply', 'v', [['sleep', 0.2], list(death)], {}]]
    for i in range(case['others']):
        steps.append(['apply', 'o%d' % i, [['sleep', 0.05], ['ret', i]], {}])
    steps += [['wait_mark', 'never', 0.8],   # the victim is dead, nothing consumed
              ['maintain'],                  # reaped first ...
              ['pump', 2.0],                 # ... its ACK consumed afterwards
              ['snapshot', 'mid'],
              ['drive', 30], ['snapshot', 'after'], ['terminate']]
    scen = {'pool': {'procs': case['procs'], 'lost': L, 'threads': False},
            'steps': steps, 'watch': 90, 'settle': 0.2}
    obs = run_scenario(scen)
    labels = ['lateack']
    t = _harness_trouble(obs, 'C04')
    if t:
        return t
    if obs['hung']:
        return inconclusive('watchdog: %s' % obs['stacks'][-300:], labels)
    dies = {e[1]: (int(e[2]), float(e[3])) for e in _exec_by(obs, 'die')}
    rec = obs['jobs'].get('v', {})
    if 'v' not in dies:
        return inconclusive('victim never ran', labels)
    pid, t_die = dies['v']
    t_down = [d[2] for d in obs.get('downs', []) if d[0] == pid]
    acc = rec.get('accept')
    if not (t_down and acc and acc[2] > t_down[0]):
        return inconclusive('schedule not reached: ACK consumed %r, reaped %r' % (
            acc, t_down), labels)
    labels.append('ack_consumed_after_reap')
    out = rec.get('outcome')
    if not rec.get('ready'):
        return bad('C04/real-unresolved', 'job whose worker died (%r) and was '
                   'reaped before its ACK was consumed is unresolved 30 s later'
                   % (death,), True, labels)
    if out.get('type') != 'WorkerLostError':
        return bad('C04/real-wrong-outcome', 'job whose worker died (%r): %r'
                   % (death, out), True, labels)
    want = ('signal %d' % death[1]) if death[0] == 'kill' \
        else ('exitcode %d' % death[1])
    if want not in out['args']:
        return bad('C04/real-status-text', '%s does not name %r (ACK consumed '
                   'after the reap)' % (out['args'], want), True, labels)
    t_err = rec['cb'][0][1]
    if t_err < t_die + L - 0.005:
        return bad('C04/real-early', 'failed %.3fs after the death, lost timeout '
                   '%.2f' % (t_err - t_die, L), True, labels)
    for i in range(case['others']):
        o = obs['jobs'].get('o%d' % i, {}).get('outcome')
        if o != {'ok': True, 'value': i}:
            return bad('C04/real-bystander', 'job o%d: %r' % (i, o), True, labels)
    snap = obs['snapshots']['after']
    if len(snap['pids']) != case['procs'] or pid in snap['pids']:
        return bad('C04/real-not-replaced', 'pool %r after the loss, size %d, '
                   'victim %d' % (snap['pids'], case['procs'], pid), True, labels)
    return ok(True, labels)


def c04_imap_cases():
    """an imap / imap_unordered some of whose items kill their worker"""
    return st.fixed_dictionaries({
        'procs': st.integers(1, 4),
        'lost': st.sampled_from([0.3, 0.5, 1.0]),
        'kind': st.sampled_from(['imap', 'imap_unordered']),
        'n': st.integers(3, 8),
        'victims': st.lists(st.tuples(st.integers(0, 7), _DEATH), min_size=1,
                            max_size=2, unique_by=lambda v: v[0]),
        'others': st.integers(0, 4),
    })


def execute_c04_imap(case):
    L, n = case['lost'], case['n']
    victims = {}
    for x, death in case['victims']:
        victims.setdefault(x % n, death)
    script = [['sleep', 0.15]]
    for x, death in sorted(victims.items()):
        script.append(['kill_if' if death[0] == 'kill' else 'exit_if', [x],
                       death[1]])
    script.append(['retx', 9])
    steps = []
    for i in range(case['others'] // 2):
        steps.append(['apply', 'o%d' % i, [['sleep', 0.1], ['ret', i]], {}])
    steps.append(['map', 'im', script, n, 1, case['kind']])
    for i in range(case['others'] // 2, case['others']):
        steps.append(['apply', 'o%d' % i, [['sleep', 0.05], ['ret', i]], {}])
    steps += [['drain', 'im', 60], ['wait_all', 30],
              ['wait_size', case['procs'], 20], ['snapshot', 'after'],
              ['terminate']]
    scen = {'pool': {'procs': case['procs'], 'lost': L}, 'steps': steps,
            'watch': 150, 'settle': 0.2}
    obs = run_scenario(scen)
    labels = ['imap_victims=%d' % len(victims), case['kind']]
    nontrivial = True
    t = _harness_trouble(obs, 'C04')
    if t:
        return t
    if obs['hung']:
        return inconclusive('watchdog: %s' % obs['stacks'][-300:], labels)
    rec = obs['jobs'].get('im', {})
    items = rec.get('items')
    if items is None:
        return inconclusive('imap never drained', labels)
    dies = {}
    for e in _exec_by(obs, 'die'):
        if e[1].startswith('im.'):
            dies[int(e[1][3:])] = (int(e[2]), float(e[3]))
    if set(dies) != set(victims):
        return inconclusive('victims that ran: %r of %r' % (sorted(dies),
                                                            sorted(victims)), labels)
    # the schedule of the repaired finding D7: a victim reaped before the result
    # handler consumed that part's ACK (judged like any other loss)
    acks = {a[0]: a for a in rec.get('part_acks', [])}
    for x, (pid, t_die) in dies.items():
        t_down = [d[2] for d in obs.get('downs', []) if d[0] == pid]
        if t_down and x in acks and acks[x][2] > t_down[0]:
            labels.append('ack_consumed_after_reap')
    body, last = items[:-1], items[-1]
    if last[0] != 'stop':
        return bad('C04/real-imap-loss-not-surfaced', '%s over %d items, victims '
                   '%r: the iterator gave %r and then nothing for 60 s' % (
                       case['kind'], n, sorted(victims), [i[:2] for i in items]),
                   nontrivial, labels)
    if len(body) != n:
        return bad('C04/real-imap-item-count', '%s over %d items yielded %d: %r'
                   % (case['kind'], n, len(body), [i[:2] for i in body]),
                   nontrivial, labels)
    texts = [('signal %d' % d[1]) if d[0] == 'kill' else ('exitcode %d' % d[1])
             for d in victims.values()]
    t_first = min(t for _, t in dies.values())
    t_last = max(t for _, t in dies.values())
    errs = [i for i in body if i[0] == 'err']
    oks = [i[1] for i in body if i[0] == 'ok']
    for e in errs:
        d = e[1]
        if d.get('type') != 'WorkerLostError':
            return bad('C04/real-wrong-outcome', 'imap item failed with %r' % (d,),
                       nontrivial, labels)
        if not any(tx in d.get('args', '') for tx in texts):
            return bad('C04/real-status-text', 'imap item: %s names none of %r' % (
                d.get('args'), texts), nontrivial, labels)
        if e[2] < t_first + L - 0.005:
            return bad('C04/real-early', 'imap loss shown %.3fs after the first '
                       'death, lost timeout %.2f' % (e[2] - t_first, L),
                       nontrivial, labels)
        if e[2] > t_last + L + SLACK:
            return bad('C04/real-late', 'imap loss shown %.1fs after the last death'
                       % (e[2] - t_last), nontrivial, labels)
    if len(errs) != len(victims):
        return bad('C04/real-imap-loss-count', '%d loss items for %d victims: %r'
                   % (len(errs), len(victims), [i[:2] for i in body]),
                   nontrivial, labels)
    want_ok = [[x, 9] for x in range(n) if x not in victims]
    if case['kind'] == 'imap':
        for x, it in enumerate(body):
            if (it[0] == 'err') != (x in victims):
                return bad('C04/real-imap-position', 'ordered imap: item %d is %r,'
                           ' victims %r' % (x, it[:2], sorted(victims)),
                           nontrivial, labels)
        if oks != want_ok:
            return bad('C04/real-bystander', 'imap values %r' % (oks,), nontrivial,
                       labels)
    elif sorted(oks) != want_ok:
        return bad('C04/real-bystander', 'imap_unordered values %r' % (oks,),
                   nontrivial, labels)
    for i in range(case['others']):
        out = obs['jobs'].get('o%d' % i, {}).get('outcome')
        if out != {'ok': True, 'value': i}:
            return bad('C04/real-bystander', 'job o%d: %r' % (i, out), nontrivial,
                       labels)
    snap = obs['snapshots']['after']
    if len(snap['pids']) != case['procs']:
        return bad('C04/real-not-replaced', 'pool has %d workers for size %d after '
                   'everything resolved' % (len(snap['pids']), case['procs']),
                   nontrivial, labels)
    for pid, _ in dies.values():
        if pid in snap['pids']:
            return bad('C04/real-victim-listed', 'dead worker %d still in the pool'
                       % pid, nontrivial, labels)
    return ok(nontrivial, labels)


# ---------------------------------------------------------------------------
# C05 / C06 limits (real)
# ---------------------------------------------------------------------------

def c05_cases():
    return st.fixed_dictionaries({
        'procs': st.integers(1, 3),
        'pool_limit': st.booleans(),       # limit at pool level or per job
        'tasks': st.lists(st.sampled_from(['quick', 'slow', 'stubborn']),
                          min_size=1, max_size=3),
        'with_map': st.booleans(),
    })


def execute_c05(case):
    limit = 1
    opts = {} if case['pool_limit'] else {'hard': limit}
    steps = []
    for i, kind in enumerate(case['tasks']):
        script = {'quick': [['sleep', 0.2], ['ret', i]],
                  'slow': [['mark', 't%d' % i], ['sleep', 30]],
                  'stubborn': [['mark', 't%d' % i], ['stubborn', 6]]}[kind]
        steps.append(['apply', 't%d' % i, script, opts])
    if case['with_map']:
        steps.append(['map', 'm', [['sleep', 0.4], ['retx', 1]], 4, 1, 'map'])
    steps.append(['wait_all', 90])
    for i in range(3):
        steps.append(['apply', 'n%d' % i, [['ret', 100 + i]], opts])
    steps += [['wait_all', 60], ['sleep', 1.5], ['wait_size', case['procs'], 20],
              ['snapshot', 'after'], ['terminate']]
    scen = {'pool': {'procs': case['procs'],
                     'timeout': limit if case['pool_limit'] else None},
            'steps': steps, 'watch': 170, 'settle': 0.2}
    obs = run_scenario(scen)
    labels = ['pool_limit=%s' % case['pool_limit']]
    nontrivial = any(k != 'quick' for k in case['tasks'])
    t = _harness_trouble(obs, 'C05')
    if t:
        return t
    if obs['hung']:
        return inconclusive('watchdog: %s' % obs['stacks'][-300:], labels)
    starts = {e[1]: (int(e[2]), float(e[3])) for e in _exec_by(obs, 'start')}
    for i, kind in enumerate(case['tasks']):
        tag = 't%d' % i
        rec = obs['jobs'].get(tag, {})
        out = rec.get('outcome')
        if kind == 'quick':
            if out != {'ok': True, 'value': i}:
                return bad('C05/real-timed-out-early', 'job %s (0.2 s, limit 1 s): '
                           '%r' % (tag, out), nontrivial, labels)
            continue
        if not rec.get('ready') or out.get('type') != 'TimeLimitExceeded':
            return bad('C05/real-not-timed-out', 'job %s (%s): %r' % (tag, kind, out),
                       nontrivial, labels)
        if out['args'] != repr([limit]):
            return bad('C05/real-limit-arg', '%s' % out['args'], nontrivial, labels)
        pid, t_start = starts.get(tag, (None, None))
        acc = rec.get('accept')
        if acc:
            t_err = rec['cb'][0][1]
            if t_err < acc[1] + limit - 0.01:
                return bad('C05/real-early', 'job %s failed %.2fs after acceptance'
                           % (tag, t_err - acc[1]), nontrivial, labels)
            if t_err > acc[1] + limit + 2.0 + SLACK:
                return bad('C05/real-late', 'job %s failed %.1fs after acceptance'
                           % (tag, t_err - acc[1]), nontrivial, labels)
        alive = [c[0] for c in obs.get('children_alive', [])] + \
            [p for p, s in obs.get('group_leftovers', [])]
        if pid and (pid in obs['snapshots']['after']['pids'] or pid in alive):
            return bad('C05/real-worker-survives', 'worker %d that ran timed-out '
                       'job %s still exists' % (pid, tag), nontrivial, labels)
    for i in range(3):
        out = obs['jobs'].get('n%d' % i, {}).get('outcome')
        if out != {'ok': True, 'value': 100 + i}:
            return bad('C05/real-pool-unusable', 'job n%d after the time-outs: %r'
                       % (i, out), nontrivial, labels)
    if case['with_map']:
        out = obs['jobs'].get('m', {}).get('outcome')
        if out != {'ok': True, 'value': [[x, 1] for x in range(4)]}:
            return bad('C05/real-map-affected', 'map sharing the pool: %r' % (out,),
                       nontrivial, labels)
    if len(obs['snapshots']['after']['pids']) != case['procs']:
        return bad('C05/real-not-replaced', 'pool has %d workers for size %d' % (
            len(obs['snapshots']['after']['pids']), case['procs']), nontrivial,
            labels)
    return ok(nontrivial, labels)


def c06_cases():
    return st.fixed_dictionaries({
        'procs': st.integers(1, 3),
        'pool_soft': st.booleans(),
        'hard': st.sampled_from([None, None, 12]),
        'n': st.integers(1, 2),
        'dur': st.sampled_from([2.6, 3.6]),
    })


def execute_c06(case):
    soft = 1
    opts = {'hard': case['hard']} if case['hard'] else {}
    if not case['pool_soft']:
        opts['soft'] = soft
    steps = []
    for i in range(case['n']):
        steps.append(['apply', 's%d' % i, [['softloop', case['dur']]], opts])
    steps.append(['apply', 'q', [['sleep', 0.1], ['ret', 3]], {}])
    steps += [['wait_all', 120], ['terminate']]
    scen = {'pool': {'procs': case['procs'],
                     'soft': soft if case['pool_soft'] else None},
            'steps': steps, 'watch': 170, 'settle': 0.2}
    obs = run_scenario(scen)
    labels = ['pool_soft=%s' % case['pool_soft'], 'hard=%s' % case['hard']]
    nontrivial = True
    t = _harness_trouble(obs, 'C06')
    if t:
        return t
    if obs['hung']:
        return inconclusive('watchdog', labels)
    for i in range(case['n']):
        rec = obs['jobs'].get('s%d' % i, {})
        out = rec.get('outcome')
        if not out or not out.get('ok'):
            return bad('C06/real-not-delivered', 'task that caught the soft limit '
                       'and returned: %r' % (out,), nontrivial, labels)
        if out['value'] != ['soft', 1]:
            return bad('C06/real-count', 'SoftTimeLimitExceeded raised %r times in '
                       'a task running %.1fs with soft limit 1 s' % (
                           out['value'][1], case['dur']), nontrivial, labels)
        tcb = [c for c in rec.get('tcb', [])]
        if len(tcb) != 1 or tcb[0][0] is not True or tcb[0][1] != soft:
            return bad('C06/real-callback', 'timeout callbacks %r' % (tcb,),
                       nontrivial, labels)
    out = obs['jobs'].get('q', {}).get('outcome')
    if out != {'ok': True, 'value': 3} or obs['jobs']['q'].get('tcb'):
        return bad('C06/real-stray', 'quick job: %r, callbacks %r' % (
            out, obs['jobs']['q'].get('tcb')), nontrivial, labels)
    return ok(nontrivial, labels)


# ---------------------------------------------------------------------------
# C09 recycling (real)
# ---------------------------------------------------------------------------

def c09_cases():
    return st.fixed_dictionaries({
        'procs': st.integers(1, 4),
        'maxtasks': st.integers(1, 4),
        'jobs': st.integers(6, 30),
        'map_n': st.sampled_from([0, 0, 5, 9]),
    })


def execute_c09(case):
    steps = []
    for i in range(case['jobs']):
        steps.append(['apply', 'a%d' % i, [['pid']], {}])
    if case['map_n']:
        steps.append(['map', 'm', [['retx', 4]], case['map_n'], 2, 'map'])
    steps += [['wait_all', 150], ['wait_size', case['procs'], 20],
              ['snapshot', 'after'], ['terminate']]
    scen = {'pool': {'procs': case['procs'], 'maxtasks': case['maxtasks']},
            'steps': steps, 'watch': 200, 'settle': 0.2}
    obs = run_scenario(scen)
    labels = ['maxtasks=%d' % case['maxtasks']]
    nontrivial = case['jobs'] > case['maxtasks'] * case['procs']
    t = _harness_trouble(obs, 'C09')
    if t:
        return t
    if obs['hung']:
        return inconclusive('watchdog', labels)
    # tasks per process: an apply job is one task, a map chunk (2 items) is one
    tasks = set()
    for e in _exec_by(obs, 'start'):
        tag, _, x = e[1].partition('.')
        tasks.add((int(e[2]), tag, int(x) // 2 if x else None))
    per_pid = collections.Counter(t[0] for t in tasks)
    over = {p: c for p, c in per_pid.items() if c > case['maxtasks']}
    if over:
        return bad('C09/real-quota', 'workers ran more than %d tasks: %r' % (
            case['maxtasks'], over), nontrivial, labels)
    seen = collections.Counter()
    for i in range(case['jobs']):
        rec = obs['jobs'].get('a%d' % i, {})
        out = rec.get('outcome')
        if not out or not out.get('ok'):
            return bad('C09/real-job-failed', 'job a%d on a recycling pool: %r' % (
                i, out), nontrivial, labels)
        if out['value'] != rec.get('worker_pid'):
            return bad('C03/real-owner', 'job a%d ran in %r, handle says %r' % (
                i, out['value'], rec.get('worker_pid')), nontrivial, labels)
        seen['a%d' % i] += 1
    starts = collections.Counter(e[1] for e in _exec_by(obs, 'start'))
    dup = {t: c for t, c in starts.items() if c > 1}
    if dup:
        return bad('C09/real-duplicated', 'executed more than once: %r' % dup,
                   nontrivial, labels)
    if case['map_n']:
        out = obs['jobs'].get('m', {}).get('outcome')
        if out != {'ok': True, 'value': [[x, 4] for x in range(case['map_n'])]}:
            return bad('C09/real-job-failed', 'map on a recycling pool: %r' % (out,),
                       nontrivial, labels)
    full = [p for p, c in per_pid.items() if c == case['maxtasks']]
    downs = {d[0]: d[1] for d in obs.get('downs', [])}
    wrong = {p: downs[p] for p in full if p in downs and downs[p] != 155}
    if wrong:
        return bad('C09/real-recycle-status', 'workers that used up their quota '
                   'exited with %r' % wrong, nontrivial, labels)
    if len(obs['snapshots']['after']['pids']) != case['procs']:
        return bad('C09/real-size', 'pool has %d workers for size %d' % (
            len(obs['snapshots']['after']['pids']), case['procs']), nontrivial,
            labels)
    t_first = min(v['t_submit'] for v in obs['jobs'].values() if 't_submit' in v)
    w = _step(obs, 'wait_all')
    if w['t_end'] - t_first > 60 + case['jobs'] * 1.0:
        return bad('C09/real-held-up', '%d trivial jobs took %.1fs' % (
            case['jobs'], w['t_end'] - t_first), nontrivial, labels)
    return ok(nontrivial, labels)


# ---------------------------------------------------------------------------
# C02 results (real, all entry points)
# ---------------------------------------------------------------------------

def c02_cases():
    return st.fixed_dictionaries({
        'procs': st.integers(1, 4),
        'entry': st.sampled_from(['apply', 'map', 'starmap', 'imap',
                                  'imap_unordered', 'map_async']),
        'n': st.integers(0, 14),
        'cs': st.sampled_from([None, 1, 2, 3, 5, 20]),
        'bad': st.lists(st.integers(0, 13), max_size=3, unique=True),
        'exc': st.sampled_from(['ValueError', 'KeyError', 'CustomError',
                                'OSError']),
        # a job the same pool has served before (the feeder/handlers are loops
        # that live across jobs)
        'pre': st.sampled_from([None, 'apply', 'map', 'imap']),
        # the call is made while the supervisor is replacing *all* workers
        # (told to exit while idle; replacements slow to build): the list of
        # workers is empty at that moment
        'replacing': st.sampled_from([False, False, False, True]),
    })


def execute_c02(case):
    n, cs, entry = case['n'], case['cs'], case['entry']
    badset = [b for b in case['bad'] if b < n]
    script = [['raise_if', badset, case['exc']], ['retx', 5]]
    steps = []
    pre = case.get('pre')
    if pre == 'apply':
        steps += [['apply', 'p', [['ret', 1]], {}], ['wait', 'p', 60]]
    elif pre == 'map':
        steps += [['map', 'p', [['retx', 0]], 7, 2, 'map'], ['wait', 'p', 60]]
    elif pre == 'imap':
        steps += [['map', 'p', [['retx', 0]], 3, 1, 'imap'], ['drain', 'p', 60]]
    replacing = bool(case.get('replacing'))
    if replacing:
        steps += [['sleep', 1.6], ['kill_idle_n', case['procs'], 15],
                  ['wait_short', 1, 20]]
    if entry == 'apply':
        x_bad = bool(badset)
        steps.append(['apply_sync', 'j', [['raise', case['exc'], [1, 'boom']]]
                      if x_bad else [['ret', n]]])
    elif entry in ('map', 'starmap'):
        steps.append(['map_sync', 'j', script, n, cs, entry])
    elif entry == 'map_async':
        steps += [['map', 'j', script, n, cs, 'map'], ['wait', 'j', 60]]
    else:
        steps += [['map', 'j', script, n, cs or 1, entry], ['drain', 'j', 60]]
    steps.append(['terminate'])
    scen = {'pool': {'procs': case['procs'],
                     'slow_create': 0.7 if replacing else 0},
            'steps': steps, 'watch': 120, 'settle': 0}
    obs = run_scenario(scen)
    labels = ['entry=' + entry]
    if replacing:
        labels.append('pool_empty_at_call')
    chunk = cs or 1
    nontrivial = bool(badset) or (n > chunk and n % chunk != 0) or n == 0
    t = _harness_trouble(obs, 'C02')
    if t:
        return t
    if obs['hung']:
        return inconclusive('watchdog', labels)
    rec = obs['jobs'].get('j', {})

    def exc_ok(out, xs):
        from engines.targets import EXC
        # (OSError(1, ..) is a PermissionError also when raised sequentially)
        names = set(type(EXC[case['exc']](x, 'boom')).__name__ for x in xs)
        if out.get('type') not in names:
            return False
        return any(out['args'] == repr([x, 'boom']) for x in xs)

    if entry == 'apply':
        out = rec.get('sync')
        if badset:
            if not out or out.get('ok') or not exc_ok(out, [1]):
                return bad('C02/real-apply-exc', '%r' % (out,), nontrivial, labels)
            if out.get('cause') != 'RemoteTraceback' or \
                    'rtask' not in out.get('cause_text', ''):
                return bad('C02/real-remote-traceback', '%r' % (out,), nontrivial,
                           labels)
        elif out != {'ok': True, 'value': n}:
            return bad('C02/real-apply-value', '%r' % (out,), nontrivial, labels)
        return ok(nontrivial, labels)
    if entry in ('map', 'starmap', 'map_async'):
        out = rec.get('sync') if entry != 'map_async' else rec.get('outcome')
        want = [[x, 5] for x in range(n)]
        if entry == 'starmap':
            want = [[[x, 5], x + 100] for x in range(n)]
        if badset:
            if not out or out.get('ok') or not exc_ok(out, badset):
                return bad('C02/real-map-exc', '%s: %r (raising inputs %r)' % (
                    entry, out, badset), nontrivial, labels)
            if out.get('cause') != 'RemoteTraceback' or \
                    'rtask' not in out.get('cause_text', ''):
                return bad('C02/real-remote-traceback', '%r' % (out,), nontrivial,
                           labels)
        elif out != {'ok': True, 'value': want}:
            return bad('C02/real-map-value', '%s n=%d cs=%r: %r' % (
                entry, n, cs, out), nontrivial, labels)
        return ok(nontrivial, labels)
    # imap / imap_unordered
    items = rec.get('items') or []
    if not items:
        return bad('C02/real-imap-empty', 'no items drained', nontrivial, labels)
    want = [[x, 5] for x in range(n)]
    if chunk == 1:
        if items[-1][0] != 'stop':
            return bad('C02/real-imap-incomplete', 'iterator ended with %r' % (
                items[-1],), nontrivial, labels)
        body = items[:-1]
        if len(body) != n:
            return bad('C02/real-imap-count', '%d items for %d inputs' % (
                len(body), n), nontrivial, labels)
        got = []
        for k, it in enumerate(body):
            if it[0] == 'ok':
                got.append(('ok', it[1]))
            else:
                d = it[1]
                from engines.targets import EXC
                if d.get('einfo_type') not in set(
                        type(EXC[case['exc']](x, 'boom')).__name__
                        for x in range(n)):
                    return bad('C02/real-imap-exc', 'item %d: %r' % (k, d),
                               nontrivial, labels)
                got.append(('err', d['args']))
        exp = [('err', repr([x, 'boom'])) if x in badset else ('ok', [x, 5])
               for x in range(n)]
        if entry == 'imap':
            if got != exp:
                return bad('C02/real-imap-order', 'got %r want %r' % (got, exp),
                           nontrivial, labels)
        elif sorted(map(repr, got)) != sorted(map(repr, exp)):
            return bad('C02/real-imap-multiset', 'got %r want %r' % (got, exp),
                       nontrivial, labels)
        return ok(nontrivial, labels)
    # chunked: a generator; dies at its first error (language rule)
    vals = [it[1] for it in items if it[0] == 'ok']
    if not badset:
        if items[-1][0] != 'stop':
            return bad('C02/real-imap-incomplete', '%r' % (items[-1],), nontrivial,
                       labels)
        if (vals != want) if entry == 'imap' else (
                sorted(map(repr, vals)) != sorted(map(repr, want))):
            return bad('C02/real-imap-order', 'chunked %s: %r want %r' % (
                entry, vals, want), nontrivial, labels)
    else:
        if entry == 'imap':
            first_bad_chunk = min(badset) // chunk
            prefix = want[:first_bad_chunk * chunk]
            if vals != prefix or items[-1][0] != 'err':
                return bad('C02/real-imap-order', 'chunked imap with raising inputs'
                           ' %r: values %r then %r' % (badset, vals, items[-1]),
                           nontrivial, labels)
        else:
            if any(v not in want for v in vals):
                return bad('C02/real-imap-multiset', 'foreign values %r' % (vals,),
                           nontrivial, labels)
    return ok(nontrivial, labels)
