"""E2 `workerloop` - the real ``billiard.pool.Worker.workloop`` run in-process.

What it does
------------
``run(tasks, quota=None, synack=None, ...)`` builds a real
``billiard.pool.Worker(inq, outq, synq, maxtasks=quota)`` over real
``SimpleQueue``s (pipes + SemLocks of the default context), preloads ``inq``
with one ``(TASK, (job, i, fun, args, kwargs))`` message per task followed by
the ``None`` sentinel, preloads ``synq`` (only when ``synack`` is given) with
one ``(ACK|NACK, (job,))`` answer per task, calls ``_make_child_methods()`` and
then ``workloop(pid=pid)`` in a helper thread - no fork, no ``after_fork()``,
no signal handlers, ``SystemExit`` caught - while the calling thread drains
``outq`` and parses each payload as it arrives (a pickled ``ExceptionInfo`` is
2-56 KiB, a handful of them fill the 64 KiB pipe and the loop would block in
``put``).  When the loop has ended, what is left in ``inq``/``synq`` is read
back, every fd is closed and the thread is joined.
Nothing survives the call.

API
---
``run(tasks, quota=None, synack=None, pid=DEFAULT_PID, count_ready=False,
      end='sentinel', timeout=60.0, worker_cls=None) -> Result``

* ``tasks``   list of ``(job, i, fun, args, kwargs)`` - exactly the TASK
              payload.  ``fun`` travels through ``inq`` by pickle, so it must
              be a module-level callable of an importable module
              (``engines.targets_c12.task`` is a ready-made interpreter, see
              below).  ``job``/``i`` are arbitrary picklable ids.
* ``quota``   ``maxtasks`` of the Worker (None or int > 0).
* ``synack``  None: the Worker gets no synq (no SYN handshake).  Otherwise a
              list with one truthy (ACK) / falsy (NACK) answer per task, in
              task order.  Answers for tasks the loop never reads (quota) stay
              in synq and are returned in ``Result.leftover_syn``.  With
              fewer answers than tasks the loop would wait for ever; ``run``
              raises ``ValueError`` instead.
* ``pid``     passed to ``workloop(pid=...)``; it must come back in every ACK.
* ``count_ready``  give the Worker an ``on_ready_counter`` that the drainer
              credits once per READY it has taken off the pipe (what the
              parent's result handler does), so
              ``_ensure_messages_consumed`` returns at once.  With False the
              Worker has no counter and that step is skipped by billiard.
* ``end``     'sentinel' (default): ``None`` is appended to inq -> the loop
              leaves through ``SystemExit(EX_FAILURE)`` raised by its receive
              function, unless the quota ended it first.  'eof': nothing is
              appended, the inq writer is closed instead (EOFError in the
              receive function, also ``SystemExit(EX_FAILURE)``).
* ``timeout`` seconds the loop may take; on overrun the engine closes the
              inq/synq writers (EOF makes the receive functions raise
              SystemExit), joins, and sets ``Result.timed_out``.
* ``worker_cls``  Worker subclass to use (default ``billiard.pool.Worker``).

``Result`` attributes
* ``messages``  parsed outq stream in order, a list of ``Msg``:
      ``Msg.kind``  'ACK' | 'READY' | 'DEATH' | 'OTHER' | 'UNDECODABLE'
      ``Msg.raw``   the unpickled tuple (or the payload bytes if UNDECODABLE)
      ACK:   ``.job .i .t .pid .fd``   (fd = worker.synqW_fd, None w/o synq)
      READY: ``.job .i .ok .value .fd`` (fd = worker.inqW_fd;
             ``(ok, value)`` is the result pair: ``(True, retval)`` or
             ``(False, ExceptionInfo)``)
      UNDECODABLE: ``.error`` = the exception ``pickle.loads`` raised
* ``witness``   what the task functions recorded with ``record(x)`` while
                they ran, in execution order (the "was it run" witness).
* ``outcome``   ('return', code) | ('exit', code) | ('raise', exception)
                - how ``workloop`` ended; ``rc`` is the code (None for raise).
                EX_RECYCLE=0x9B when the quota was reached, SystemExit code
                EX_FAILURE=1 for sentinel/EOF.
* ``leftover_inq`` / ``leftover_syn``  messages still unread in inq / synq
                after the loop ended (the sentinel included if unread).
* ``t_start`` / ``t_end``  ``time.monotonic()`` bracket around the loop (the
                ACK timestamps come from the same clock).
* ``pid``, ``inqW_fd``, ``synqW_fd``  what the Worker was given / computed.
* ``timed_out``  True if the escape hatch had to be used.

Task-side helper
* ``record(entry)``  append ``entry`` to the witness of the run in progress.
  Tasks execute in the helper thread of *this* process, so a module global is
  all it takes.  ``engines.targets_c12.task(tag, behaviour)`` is a ready-made
  task function (use it as ``(job, i, targets_c12.task, (tag, behaviour), {})``):
  it records ``tag`` and then, according to the JSON ``behaviour``, returns a
  value / raises a chosen exception at a chosen traceback depth / returns a
  value that cannot be pickled at a chosen nesting depth (then it also records
  ``('repr', tag, repr(value))``).  See that module's docstring.

Limits: everything preloaded must fit the pipes (checked: <= 60 000 bytes in
inq, likewise synq) - about 300 ordinary tasks.  ``run`` is not re-entrant
(one loop at a time per process; guarded by a lock).
"""
import pickle
import threading
import time

DEFAULT_PID = 4242424
_PIPE_BUDGET = 60000

_run_lock = threading.Lock()
_witness = None


def record(entry):
    """Called by task functions: note that (and what) they executed."""
    _witness.append(entry)


class Msg:
    __slots__ = ('kind', 'raw', 'job', 'i', 't', 'pid', 'fd', 'ok', 'value',
                 'error')

    def __init__(self, kind, raw, **kw):
        self.kind, self.raw = kind, raw
        self.job = self.i = self.t = self.pid = self.fd = None
        self.ok = self.value = self.error = None
        for k, v in kw.items():
            setattr(self, k, v)

    def __repr__(self):
        if self.kind == 'ACK':
            return 'ACK(%r,%r)' % (self.job, self.i)
        if self.kind == 'READY':
            return 'READY(%r,%r,%s)' % (self.job, self.i,
                                        'ok' if self.ok else 'err')
        return '%s(...)' % self.kind


class Result:
    __slots__ = ('messages', 'witness', 'outcome', 'rc', 'leftover_inq',
                 'leftover_syn', 't_start', 't_end', 'pid', 'inqW_fd',
                 'synqW_fd', 'timed_out')


class _Counter:
    """Stand-in for the shared ``on_ready_counter`` (only ``.value`` is read)."""

    def __init__(self):
        self.value = 0


def parse(payload):
    """one outq payload (bytes) -> Msg"""
    from billiard import pool as bp
    try:
        raw = pickle.loads(payload)
    except BaseException as exc:           # noqa - reported, never swallowed
        return Msg('UNDECODABLE', bytes(payload), error=exc)
    try:
        type_, args = raw
        if type_ == bp.ACK:
            job, i, t, pid, fd = args
            return Msg('ACK', raw, job=job, i=i, t=t, pid=pid, fd=fd)
        if type_ == bp.READY:
            job, i, (ok, value), fd = args
            return Msg('READY', raw, job=job, i=i, ok=ok, value=value, fd=fd)
        if type_ == bp.DEATH:
            return Msg('DEATH', raw)
    except (TypeError, ValueError):
        pass
    return Msg('OTHER', raw)


def _drain_pipe(reader):
    out = []
    while reader.poll(0):
        try:
            out.append(reader.recv_bytes())
        except EOFError:
            break
    return out


def _close(conn):
    try:
        if conn is not None and not conn.closed:
            conn.close()
    except OSError:
        pass


def run(tasks, quota=None, synack=None, pid=DEFAULT_PID, count_ready=False,
        end='sentinel', timeout=60.0, worker_cls=None):
    global _witness
    import billiard
    from billiard import pool as bp
    from billiard.reduction import ForkingPickler

    if end not in ('sentinel', 'eof'):
        raise ValueError('end must be "sentinel" or "eof"')
    tasks = [tuple(t) for t in tasks]
    if synack is not None and len(synack) < len(tasks):
        raise ValueError('need one synack answer per task')

    in_msgs = [bytes(ForkingPickler.dumps((bp.TASK, t))) for t in tasks]
    if end == 'sentinel':
        in_msgs.append(bytes(ForkingPickler.dumps(None)))
    syn_msgs = []
    if synack is not None:
        for t, ans in zip(tasks, synack):
            syn_msgs.append(bytes(ForkingPickler.dumps(
                (bp.ACK if ans else bp.NACK, (t[0],)))))
    for what, msgs in (('inq', in_msgs), ('synq', syn_msgs)):
        if sum(len(m) + 8 for m in msgs) > _PIPE_BUDGET:
            raise ValueError('%s preload does not fit the pipe' % what)

    if not _run_lock.acquire(False):
        raise RuntimeError('engines.workerloop.run is not re-entrant')
    ctx = billiard.get_context()
    queues = []
    try:
        _witness = witness = []
        inq = ctx.SimpleQueue()
        queues.append(inq)
        outq = ctx.SimpleQueue()
        queues.append(outq)
        synq = None
        if synack is not None:
            synq = ctx.SimpleQueue()
            queues.append(synq)
        for m in in_msgs:
            inq._writer.send_bytes(m)
        for m in syn_msgs:
            synq._writer.send_bytes(m)

        counter = _Counter() if count_ready else None
        cls = worker_cls or bp.Worker
        w = cls(inq, outq, synq, maxtasks=quota, on_ready_counter=counter)
        if end == 'eof':
            inq._writer.close()    # after Worker() has read its fileno
        res = Result()
        res.pid, res.inqW_fd, res.synqW_fd = pid, w.inqW_fd, w.synqW_fd
        res.timed_out = False
        box = {}

        def body():
            try:
                w._make_child_methods()
                box['outcome'] = ('return', w.workloop(pid=pid))
            except SystemExit as exc:
                box['outcome'] = ('exit', exc.code)
            except BaseException as exc:   # noqa - handed to the caller
                box['outcome'] = ('raise', exc)

        th = threading.Thread(target=body, name='verif-workloop')
        messages = []
        reader = outq._reader

        def take():
            m = parse(reader.recv_bytes())
            messages.append(m)
            if counter is not None and m.kind == 'READY':
                counter.value += 1

        res.t_start = time.monotonic()
        deadline = res.t_start + timeout
        th.start()
        try:
            while th.is_alive():
                if reader.poll(0.002):
                    take()
                elif not res.timed_out and time.monotonic() > deadline:
                    res.timed_out = True
                    _close(inq._writer)
                    if synq is not None:
                        _close(synq._writer)
                    if counter is not None:
                        counter.value = 1 << 60
        finally:
            th.join()
        res.t_end = time.monotonic()
        while reader.poll(0):
            take()

        res.messages = messages
        res.witness = list(witness)
        res.outcome = box.get('outcome', ('raise', RuntimeError('no outcome')))
        res.rc = res.outcome[1] if res.outcome[0] != 'raise' else None
        res.leftover_inq = [pickle.loads(p) for p in _drain_pipe(inq._reader)]
        res.leftover_syn = ([pickle.loads(p)
                             for p in _drain_pipe(synq._reader)]
                            if synq is not None else [])
        return res
    finally:
        _witness = None
        for q in queues:
            _close(q._reader)
            _close(q._writer)
        _run_lock.release()
