"""Oracles evaluated on a ``simpool.Sim`` after every operation.

``run_case(case, clauses)`` executes a case and returns
``(signature, detail, labels)``; ``clauses`` is a set of clause-group names:

  c01   single assignment / callbacks / own outcome / ignored messages /
        resolution + cache consistency at quiescence
  c04   worker-lost timing, converse, surfacing for iterators
  c05   hard limit       c06   soft limit
  c09   pool size / indices / recycling harmless
  c10   slot semaphore   c11   restart limiter
  c02   results equal the sequential computation (success paths incl. ordering)
  c07   close/join drains, no guard wait, handshake counters

Every signature starts with the clause group in upper case.
"""
import signal

import billiard.pool as bp
from billiard.exceptions import RestartFreqExceeded

from engines import simpool
from engines.simpool import (ACK, DEAD, DRAINING, IDLE, READY, RUNNING, CLOCK,
                             Sim, SimHarnessError, Violation, fail_desc, unwrap)

TASK_EXC = set(simpool.targets.EXC)


def innermost_pool_frame(tb):
    name = None
    while tb is not None:
        fn = tb.tb_frame.f_code.co_filename
        if fn.endswith('billiard/pool.py') or fn.endswith('billiard/common.py'):
            name = tb.tb_frame.f_code.co_name
        tb = tb.tb_next
    return name or 'outside'


class Oracle:
    def __init__(self, sim, clauses):
        self.sim = sim
        self.clauses = clauses
        self.soft_sent = {}        # jobidx -> count of soft signals on its behalf
        self.limiter = None

    def on(self, c):
        return c in self.clauses

    # ------------------------------------------------------------------
    # observation of handles (the oracle is the consumer)
    # ------------------------------------------------------------------
    def observe_job(self, mj):
        sim = self.sim
        h = mj.handle
        if h is None:
            return
        if mj.kind in ('apply', 'map', 'starmap'):
            if not h.ready():
                if mj.first is not None:
                    raise Violation('C01/unresolved-again/%s' % mj.kind,
                                    'job %d was ready and is not any more' % mj.idx)
                return
            if h._success:
                snap = ('ok', repr(h._value))
            else:
                snap = ('err',) + fail_desc(h._value)
            if mj.first is None:
                mj.first = snap
                mj.first_time = CLOCK.now
                mj.first_op = len(sim.log)
                self.on_first_outcome(mj, snap)
            elif snap != mj.first:
                raise Violation('C01/outcome-changed/%s' % mj.kind,
                                'job %d: %r -> %r' % (mj.idx, mj.first, snap))
        else:
            while not mj.stopped:
                try:
                    v = h.next(timeout=0)
                    item = ('ok', v)
                except StopIteration:
                    mj.stopped = True
                    break
                except bp.TimeoutError:
                    break
                except Exception as exc:
                    item = ('err',) + fail_desc(exc.args[0]) \
                        if exc.args else ('err', '<bare>', '')
                mj.yielded.append((item, CLOCK.now, len(sim.log)))
                self.on_imap_item(mj, item)

    # ------------------------------------------------------------------
    def justify_pool_failure(self, mj, kind):
        """True when the model holds an event on *this* job that entitles the
        pool to fail it with ``kind``."""
        sim = self.sim
        now = CLOCK.now
        if kind == 'WorkerLostError':
            for p in mj.parts.values():
                if p.owner is None or p.ready_delivered:
                    continue
                proc = sim.by_pid[p.owner]
                if not proc.alive:
                    return True
            return False
        if kind == 'Terminated':
            return bool(mj.events.get('terminated'))
        if kind == 'TimeLimitExceeded':
            lim = self.hard_limit(mj)
            if not lim:
                return False
            p = mj.parts.get(None)
            return bool(p and p.ack_delivered and now >= p.ack_time + lim)
        return False

    def result_in_flight_from_terminated_worker(self, mj):
        """discriminator of the open finding D25"""
        for p in mj.parts.values():
            if p.owner is None or p.ready_delivered or not p.finished:
                continue
            proc = self.sim.by_pid[p.owner]
            if getattr(proc, '_job_terminated', False):
                return True
        return False

    def hard_limit(self, mj):
        if mj.kind != 'apply':
            return None
        return mj.opts.get('hard') or self.sim.config.get('timeout')

    def soft_limit(self, mj):
        if mj.kind != 'apply':
            return None
        return mj.opts.get('soft') or self.sim.config.get('soft')

    def on_first_outcome(self, mj, snap):
        if not (self.on('c01') or self.on('c02') or self.on('c04')):
            return
        exp = mj.expected
        if snap[0] == 'ok':
            if any(e[0] != 'ok' for e in exp):
                raise Violation('C01/own-outcome/%s/success-despite-raise' % mj.kind,
                                'job %d succeeded with %s' % (mj.idx, snap[1]))
            want = exp[0][1] if mj.kind == 'apply' else [e[1] for e in exp]
            if snap[1] != repr(want):
                raise Violation('C02/value/%s' % mj.kind,
                                'job %d: got %s want %r' % (mj.idx, snap[1], want))
            return
        _, tname, targs = snap
        if tname in simpool.POOL_MADE:
            if tname == 'Terminated' and not self.justify_pool_failure(mj, tname) \
                    and self.result_in_flight_from_terminated_worker(mj):
                raise Violation(
                    'C01/terminated-with-result-in-flight',
                    'job %d (%s) failed with Terminated%s: its worker had finished '
                    'it (result in flight) and was then stopped by terminate_job() '
                    'while running another job' % (mj.idx, mj.kind, targs))
            if not self.justify_pool_failure(mj, tname):
                raise Violation(
                    'C01/own-outcome/%s/unjustified-%s' % (mj.kind, tname),
                    'job %d failed with %s%s but no event on this job entitles '
                    'the pool to it' % (mj.idx, tname, targs))
            if tname == 'WorkerLostError' and self.on('c04'):
                self.check_lost_timing(mj, targs)
            if tname == 'TimeLimitExceeded' and self.on('c05'):
                lim = self.hard_limit(mj)
                if targs != repr([lim]):
                    raise Violation('C05/limit-arg', 'job %d: TimeLimitExceeded%s,'
                                    ' effective limit %r' % (mj.idx, targs, lim))
            return
        # the job's own exception?
        own = [(e[1], repr(e[2])) for e in exp if e[0] == 'err']
        if (tname, targs) in own:
            if self.on('c02'):
                exc = mj.handle._value.exception
                cause = getattr(exc, '__cause__', None)
                if type(cause).__name__ != 'RemoteTraceback' or \
                        'task' not in str(cause) or tname not in str(cause):
                    raise Violation('C02/remote-traceback/%s' % mj.kind,
                                    'job %d: __cause__ is %r' % (mj.idx, cause))
            return
        if mj.events.get('putfail') or getattr(mj, 'unpicklable', False):
            if tname in ('RuntimeError', 'PicklingError', 'AttributeError',
                         'TypeError'):
                return
        # somebody else's failure?
        foreign = 'other'
        for other in self.sim.jobs:
            if other is mj:
                continue
            if other.events.get('putfail') or getattr(other, 'unpicklable', False):
                foreign = 'foreign-putfail'
            if (tname, targs) in [(e[1], repr(e[2])) for e in other.expected
                                  if e[0] == 'err']:
                foreign = 'foreign-task-error'
        raise Violation('C01/own-outcome/%s/%s' % (mj.kind, foreign),
                        'job %d failed with %s%s which is none of its own '
                        'outcomes' % (mj.idx, tname, targs))

    def on_imap_item(self, mj, item):
        if not (self.on('c01') or self.on('c02') or self.on('c04')):
            return
        n = len(mj.yielded)
        if n > mj.nparts:
            raise Violation('C01/extra-item/%s' % mj.kind,
                            'job %d yielded %d items for %d parts' % (
                                mj.idx, n, mj.nparts))
        if item[0] == 'err' and item[1] in simpool.POOL_MADE:
            ok_ = self.justify_pool_failure(mj, item[1])
            if ok_ and item[1] == 'WorkerLostError':
                # each loss item needs its own part with a dead owner
                matched = mj.__dict__.setdefault('lost_matched', set())
                cand = [p.i for p in mj.parts.values()
                        if p.owner is not None and not p.ready_delivered
                        and not self.sim.by_pid[p.owner].alive
                        and p.i not in matched]
                if cand:
                    matched.add(cand[0])
                    self.sim.labels.add('imap_loss_item')
                    if self.on('c04'):
                        self.check_lost_timing(mj, item[2])
                else:
                    ok_ = False
            elif ok_ and item[1] == 'Terminated':
                self.sim.labels.add('imap_terminated_item')
            if not ok_:
                raise Violation(
                    'C01/own-outcome/%s/unjustified-%s' % (mj.kind, item[1]),
                    'job %d yielded %s%s with no (further) part entitled to it'
                    % (mj.idx, item[1], item[2]))
            mj.pool_failed_items = getattr(mj, 'pool_failed_items', 0) + 1
            return
        if mj.events.get('putfail'):
            mj.pool_failed_items = getattr(mj, 'pool_failed_items', 0) + 1
            return
        if mj.kind == 'imap' and not getattr(mj, 'pool_failed_items', 0):
            want = self.expected_part(mj, n - 1)
            if item != want:
                raise Violation('C02/imap-order', 'job %d item %d: got %r want %r'
                                % (mj.idx, n - 1, item, want))

    def expected_part(self, mj, i):
        part = mj.parts[i]
        exp = [mj.expected[k] for k in part.items]
        if mj.chunksize == 1:
            e = exp[0]
            return ('ok', e[1]) if e[0] == 'ok' else ('err', e[1], repr(e[2]))
        for e in exp:
            if e[0] == 'err':
                return ('err', e[1], repr(e[2]))
        return ('ok', [e[1] for e in exp])

    # ------------------------------------------------------------------
    # C04
    # ------------------------------------------------------------------
    def check_lost_timing(self, mj, targs):
        """(that the loss is justified at all - a gone worker owns an unfinished
        part - has been checked by the caller).  Timing and status text may refer
        to ANY worker of this job that died: when two workers of one map die, the
        pool keeps the first detection, and naming either is naming "the exit
        status" of a worker that died executing the job."""
        sim = self.sim
        now = CLOCK.now
        L = mj.lost_timeout
        dead = []
        for p in mj.parts.values():
            if p.owner is None:
                continue
            proc = sim.by_pid[p.owner]
            if not proc.alive and proc not in [d[0] for d in dead]:
                dead.append((proc, sim.reaps.get(p.owner)))
        # same arithmetic as the statement: failed strictly later than L after
        # a detection (1e-9 absorbs now-td vs td+L rounding)
        if not any(td is not None and now - td > L - 1e-9 for _, td in dead):
            raise Violation('C04/i-early/%s' % mj.kind,
                            'job %d failed with WorkerLostError at t=%.2f, dead '
                            'workers of this job (pid, reaped-at): %r, lost timeout '
                            '%.2f' % (mj.idx, now, [(d[0].pid, d[1]) for d in dead],
                                      L))
        texts = []
        for proc, _ in dead:
            st = proc.exitcode
            texts.append('signal %d' % -st if (st or 0) < 0 else 'exitcode %d' % st)
        if not any(t in targs for t in texts):
            raise Violation('C04/status-text/%s' % mj.kind,
                            'job %d: WorkerLostError%s does not name any of %r'
                            % (mj.idx, targs, texts))

    def check_lost_deadline(self):
        """after a supervision step: every job whose victim was reaped more
        than L ago must have been resolved (or the loss surfaced)."""
        sim = self.sim
        now = CLOCK.now
        for mj in sim.jobs:
            if mj.handle is None or mj.discarded:
                continue
            for p in mj.parts.values():
                if p.owner is None or p.ready_delivered or not p.ack_delivered:
                    continue
                if sim.reaps.get(p.owner) is None:
                    continue
                # detection: the supervision step that saw the worker reaped
                # and the job's ACK consumed
                td = getattr(p, 'detected_at', None)
                if td is None:
                    continue
                if now > td + mj.lost_timeout and sim.last_tick == now \
                        and td < now:
                    if mj.kind in ('apply', 'map', 'starmap'):
                        if not mj.handle.ready():
                            raise Violation(
                                'C04/i-late/%s' % mj.kind,
                                'job %d: owner %d of part %r reaped at %.2f, '
                                'timeout %.2f, still unresolved after the '
                                'supervision step at %.2f' % (
                                    mj.idx, p.owner, p.i, td, mj.lost_timeout, now))
                    else:
                        self.check_imap_surfaced(mj, p, td)

    def check_imap_surfaced(self, mj, part, td):
        lost_items = [y for y in mj.yielded
                      if y[0][0] == 'err' and y[0][1] == 'WorkerLostError']
        if lost_items:
            return
        if mj.kind == 'imap' and len(mj.yielded) < (part.i or 0):
            # an ordered iterator cannot yield this part before the earlier
            # ones; the loss counts as reported when it is filed under this
            # part's own index, waiting for its turn
            filed = getattr(mj.handle, '_unsorted', {}).get(part.i)
            if filed is not None and filed[0] is False and \
                    simpool.fail_desc(filed[1])[0] == 'WorkerLostError':
                self.sim.labels.add('imap_loss_waits_for_its_turn')
                return
        raise Violation('C04/v-not-surfaced/%s' % mj.kind,
                        'job %d: owner %d of part %r reaped at %.2f, timeout %.2f:'
                        ' the iterator shows no WorkerLostError item at %.2f '
                        '(yielded %d of %d)' % (
                            mj.idx, part.owner, part.i, td, mj.lost_timeout,
                            CLOCK.now, len(mj.yielded), mj.nparts))

    # ------------------------------------------------------------------
    # after every op
    # ------------------------------------------------------------------
    def after_op(self, op, res):
        sim = self.sim
        for mj in sim.jobs:
            self.observe_job(mj)
        if self.on('c01') or self.on('c05'):
            self.check_callbacks()
        if self.on('c03'):
            self.check_accept_protocol()
        if self.on('c04') and op[0] == 'tick' and res is None and \
                not sim.restart_raised:
            self.check_lost_deadline()
        if self.on('c09') and op[0] == 'tick' and res is None:
            self.check_pool_size()
        if self.on('c10'):
            self.check_slots(op)
        if self.on('c11'):
            self.check_limiter(op)
        if self.on('c05') or self.on('c06'):
            if op[0] in ('scan', 'scanrace') and res is None:
                self.check_scan()
            else:
                self.check_no_stray_signals(op)
        if self.on('c05') and sim.joined and not getattr(self, 'drain_checked', 0):
            self.drain_checked = 1
            self.check_limits_while_draining()

    # ------------------------------------------------------------------
    # C11: reference limiter written from the statement
    # ------------------------------------------------------------------
    def limiter_init(self):
        cfg = self.sim.config
        self.lim = {'maxR': cfg.get('max_restarts'),
                    'maxT': cfg.get('max_restart_freq') or 1, 'T': None, 'R': 0,
                    'raises': 0, 'expiries': 0, 'resets': 0}

    def limiter_step(self, now):
        """True = admitted, False = RestartFreqExceeded"""
        L = self.lim
        if L['T'] is not None and now - L['T'] >= L['maxT']:
            L['T'], L['R'] = now, 0          # window expired: a new one opens
            L['expiries'] += 1
        elif L['maxR'] and L['R'] >= L['maxR']:
            L['R'] = 0                       # budget restored for the next try
            L['raises'] += 1
            return False
        if L['T'] is None:
            L['T'] = now
        L['R'] += 1
        return True

    def check_limiter(self, op):
        sim = self.sim
        if not hasattr(self, 'lim'):
            self.limiter_init()
        if op[0] in ('deliver', 'work', 'dup') or op[0] == 'quiesce':
            pass
        if op[0] != 'tick':
            return
        info = getattr(sim, 'tick_info', None)
        if info is None or info.get('checked'):
            return
        info['checked'] = True
        expect_created, expect_raise = info['predicted']
        if expect_raise != info['raised']:
            raise Violation('C11/raise-mismatch', 'supervision step at %.2f reaped '
                            '%r: model says raise=%s, pool raise=%s (limiter %r)'
                            % (info['now'], info['reaped_statuses'], expect_raise,
                               info['raised'], self.lim))
        if info['created'] != expect_created:
            raise Violation('C11/forked-count', 'supervision step reaped %r: '
                            'model admits %d replacements, pool started %d' % (
                                info['reaped_statuses'], expect_created,
                                info['created']))
        rs = sim.pool.restart_state
        if not expect_raise and self.lim['maxR'] and rs.R != self.lim['R']:
            raise Violation('C11/count-mismatch', 'limiter count %d, model %d'
                            % (rs.R, self.lim['R']))

    def limiter_predict(self, statuses, now):
        """called by the sim right before the supervision step runs"""
        if not hasattr(self, 'lim'):
            return (None, None)
        created = 0
        for status in statuses:
            if status not in (0, simpool.EX_RECYCLE):
                if not self.limiter_step(now):
                    return (created, True)
            created += 1
        return (created, False)

    def limiter_on_ack(self):
        if hasattr(self, 'lim'):
            if self.lim['R']:
                self.lim['resets'] += 1
            self.lim['R'] = 0

    def check_accept_protocol(self):
        sim = self.sim
        for mj in sim.jobs:
            h = mj.handle
            if h is None:
                continue
            if mj.kind == 'apply':
                p = mj.parts[None]
                if mj.order and mj.order[0] != 'accept' and p.ack_delivered:
                    raise Violation('C03/result-before-accept', 'job %d callbacks '
                                    'ran in order %r' % (mj.idx, mj.order))
                if p.ack_delivered and not mj.discarded:
                    if mj.cb['accept'] != 1:
                        raise Violation('C03/accept-callback', 'job %d: ACK '
                                        'consumed, accept callback ran %d times'
                                        % (mj.idx, mj.cb['accept']))
                    if mj.accept_args != (p.owner, p.ack_time):
                        raise Violation('C03/accept-args', 'job %d: accept '
                                        'callback got %r, the ACK said %r' % (
                                            mj.idx, mj.accept_args,
                                            (p.owner, p.ack_time)))
                    if h._worker_pid != p.owner:
                        raise Violation('C03/owner-not-recorded', 'job %d: owner '
                                        '%r, accepted by %r' % (
                                            mj.idx, h._worker_pid, p.owner))
                elif not p.ack_delivered and mj.cb['accept']:
                    raise Violation('C03/accept-callback', 'job %d: accept callback '
                                    'ran before any ACK was consumed' % mj.idx)
            elif mj.jobid in sim.pool._cache:
                want = sorted(set(p.owner for p in mj.parts.values()
                                  if p.ack_delivered and not p.ready_delivered))
                got = sorted(set(h.worker_pids()))
                if got != want:
                    raise Violation('C03/owners/%s' % mj.kind, 'job %d: owners of '
                                    'unfinished accepted parts %r, handle says %r'
                                    % (mj.idx, want, got))

    def check_callbacks(self):
        for mj in self.sim.jobs:
            c = mj.cb
            if c['callback'] + c['error'] > 1:
                raise Violation('C01/callbacks-twice/%s' % mj.kind,
                                'job %d: callback %d error_callback %d' % (
                                    mj.idx, c['callback'], c['error']))
            if c['accept'] > 1:
                raise Violation('C01/accept-twice/%s' % mj.kind,
                                'job %d accept callback ran %d times' % (
                                    mj.idx, c['accept']))
            if mj.handle is not None and mj.kind == 'apply' and mj.first:
                want_cb = 1 if mj.first[0] == 'ok' else 0
                want_err = 1 - want_cb
                if (c['callback'], c['error']) not in ((want_cb, want_err),):
                    # a None value suppresses the error callback by design
                    raise Violation('C01/callback-missing/%s' % mj.kind,
                                    'job %d outcome %r callbacks %r' % (
                                        mj.idx, mj.first[:2], c))

    # ------------------------------------------------------------------
    # C09
    # ------------------------------------------------------------------
    def check_pool_size(self):
        sim = self.sim
        pool = sim.pool
        if sim.restart_raised or pool._state != bp.RUN:
            return
        if pool._processes != sim.model_target:
            raise Violation('C09/target', 'pool._processes=%d model %d' % (
                pool._processes, sim.model_target))
        live = [w for w in pool._pool
                if not getattr(w, '_controlled_termination', False)]
        controlled = [w for w in pool._pool
                      if getattr(w, '_controlled_termination', False)]
        if len(live) > sim.model_target:
            raise Violation('C09/above-size', '%d workers for size %d' % (
                len(live), sim.model_target))
        # workers under a controlled termination that have not exited yet
        # still occupy a place in the list (soundness note 6)
        if len(pool._pool) < sim.model_target:
            raise Violation('C09/below-size', '%d workers (%d under controlled '
                            'termination) for size %d after supervision' % (
                                len(pool._pool), len(controlled), sim.model_target))
        stale = [w.pid for w in pool._pool if w.exitcode is not None]
        if stale:
            raise Violation('C09/not-reaped', 'exited workers %r still listed '
                            'after supervision' % (stale,))
        idx = [w.index for w in pool._pool]
        if len(set(idx)) != len(idx):
            raise Violation('C09/duplicate-index', 'indices %r' % (idx,))

    # ------------------------------------------------------------------
    # C10
    # ------------------------------------------------------------------
    def check_slots(self, op):
        sim = self.sim
        sem = sim.pool._putlock
        if sem._value > sem._initial_value:
            raise Violation('C10/P1-above-bound', 'value %d bound %d after %r' % (
                sem._value, sem._initial_value, op))
        if sem._value < 0:
            raise Violation('C10/negative', 'value %d' % sem._value)
        for mj in sim.jobs:
            seen = getattr(mj, 'cb_slots', None)
            if seen is not None and mj.kind == 'apply' and mj.slot and \
                    seen[0] < 1 <= seen[1]:
                # the slot is given back when the result arrives: the job's own
                # callback (which may submit the next job, and would block for
                # ever in the result handler otherwise) already sees it
                raise Violation('C10/slot-held-during-callback',
                                'job %d: its result callback saw %d free slots '
                                'of %d' % (mj.idx, seen[0], seen[1]))
        if sim.config.get('putlocks') and not sim.any_exit and not sim.closed \
                and not sim.labels & {'grow', 'shrink'}:
            outstanding = sum(
                1 for mj in sim.jobs
                if mj.kind == 'apply' and mj.slot and not mj.discarded and
                (mj.handle is None or not mj.handle.ready()))
            # map parts release without having acquired: keep them out (plan)
            if not any(mj.kind != 'apply' for mj in sim.jobs) and \
                    not sim.labels & {'putfail_injected', 'putfail_pickle',
                                      'putfail_direct', 'duplicate_msg',
                                      'discard'}:
                if sem._value != sem._initial_value - outstanding:
                    raise Violation(
                        'C10/P3-in-flight', 'value %d bound %d outstanding %d' % (
                            sem._value, sem._initial_value, outstanding))

    # ------------------------------------------------------------------
    # C05 / C06
    # ------------------------------------------------------------------
    def check_no_stray_signals(self, op):
        pass

    def check_limits_while_draining(self):
        """A pool without helper threads has no scanner thread: while join()
        drains the outstanding work its result handler runs the time-limit scan
        itself, once per (at most one second long) round of its loop.  A job
        that completes *successfully* inside join() more than one such round
        after its hard limit had expired was never scanned."""
        sim = self.sim
        if sim.config.get('threads', True):
            return
        for mj in sim.jobs:
            if mj.kind != 'apply' or mj.handle is None or mj.discarded:
                continue
            at = getattr(mj, 'success_at', None)
            p = mj.parts[None]
            hard = self.hard_limit(mj)
            if not at or not at[1] or not hard or not p.ack_delivered:
                continue
            due = max(p.ack_time + hard, getattr(p, 'ack_delivered_at', 0.0))
            if at[0] > due + 1.0 + 0.05:
                raise Violation('C05/not-timed-out/while-draining',
                                'job %d accepted %.2f limit %r completed at %.2f '
                                'inside join() of a pool without helper threads, '
                                'never timed out' % (mj.idx, p.ack_time, hard,
                                                     at[0]))

    def check_scan(self):
        sim = self.sim
        now = CLOCK.now
        new = sim.signals[sim.scan_sigpos:]
        by_pid = {}
        for pid, sig, t, _ in new:
            by_pid.setdefault(pid, []).append(sig)
        entitled_term = set()
        entitled_soft = set()
        for mj in sim.jobs:
            if mj.kind != 'apply' or mj.handle is None:
                continue
            p = mj.parts[None]
            hard, soft = self.hard_limit(mj), self.soft_limit(mj)
            resolved_before = mj.first is not None and \
                mj.first_op < len(sim.log)
            if mj.idx in getattr(sim, 'scan_resolved', ()):
                # its result was consumed while this scan was running: either
                # outcome is legitimate, depending on who came first
                continue
            expired_hard = bool(hard and p.ack_delivered and
                                now >= p.ack_time + hard)
            expired_soft = bool(soft and p.ack_delivered and
                                now >= p.ack_time + soft)
            in_cache = not mj.discarded
            if self.on('c05'):
                if expired_hard and not resolved_before and in_cache:
                    # must be failed now, its worker signalled
                    if not mj.handle.ready() or mj.handle._success or \
                            fail_desc(mj.handle._value)[0] != 'TimeLimitExceeded':
                        raise Violation('C05/not-timed-out',
                                        'job %d accepted %.2f limit %r now %.2f '
                                        'not failed by the scan' % (
                                            mj.idx, p.ack_time, hard, now))
                    entitled_term.add(p.owner)
                    proc = sim.by_pid[p.owner]
                    sigs = by_pid.get(p.owner, [])
                    if not proc.reaped and proc_was_alive(sim, proc):
                        if not sigs or sigs[0] != signal.SIGTERM:
                            raise Violation('C05/no-term', 'job %d: signals to its '
                                            'worker at the scan: %r' % (mj.idx, sigs))
                        if not sim.obey_term and signal.SIGKILL not in sigs:
                            raise Violation('C05/no-kill', 'job %d: worker '
                                            'lingered, signals %r' % (mj.idx, sigs))
                        if sim.obey_term and signal.SIGKILL in sigs:
                            raise Violation('C05/kill-despite-exit', 'job %d: '
                                            'signals %r' % (mj.idx, sigs))
                    mj.hard_fired = True
            if self.on('c06'):
                if expired_soft and not expired_hard and not resolved_before \
                        and in_cache:
                    entitled_soft.add((p.owner, mj.idx))
        # signals nobody is entitled to
        raced_owners = set(
            sim.jobs[i].parts[None].owner
            for i in getattr(sim, 'scan_resolved', ()) if sim.jobs[i].kind == 'apply')
        for pid, sigs in by_pid.items():
            if pid in raced_owners:
                continue
            for s in sigs:
                if s in (signal.SIGTERM, signal.SIGKILL) and self.on('c05'):
                    if pid not in entitled_term:
                        raise Violation('C05/stray-kill', 'signal %d to worker %d '
                                        'which runs no job past its hard limit'
                                        % (s, pid))
                if s == bp.SIG_SOFT_TIMEOUT and self.on('c06'):
                    owners = [j for (o, j) in entitled_soft if o == pid]
                    if not owners:
                        raise Violation('C06/stray-soft', 'soft signal to worker '
                                        '%d with no job past its soft limit' % pid)
        if self.on('c06'):
            for owner, idx in entitled_soft:
                mj = sim.jobs[idx]
                got = by_pid.get(owner, []).count(bp.SIG_SOFT_TIMEOUT)
                proc = sim.by_pid[owner]
                prev = self.soft_sent.get(idx, 0)
                if prev == 0 and proc.alive and not proc.reaped and got != 1:
                    raise Violation('C06/not-raised', 'job %d past soft limit, '
                                    'soft signals at this scan: %d' % (idx, got))
                if prev >= 1 and got:
                    raise Violation('C06/raised-twice', 'job %d soft-signalled '
                                    'again at a later scan' % idx)
                self.soft_sent[idx] = prev + got
                cbs = [c for c in mj.cb['timeout'] if c[0]]
                if self.soft_sent[idx] and (
                        len(cbs) != 1 or cbs[0][1] != self.soft_limit(mj)):
                    raise Violation('C06/callback', 'job %d timeout callbacks %r,'
                                    ' limit %r' % (idx, mj.cb['timeout'],
                                                   self.soft_limit(mj)))

    # ------------------------------------------------------------------
    # at the end
    # ------------------------------------------------------------------
    def at_quiescence(self):
        sim = self.sim
        pool = sim.pool
        for mj in sim.jobs:
            self.observe_job(mj)
        if self.on('c01') or self.on('c04') or self.on('c02'):
            if not sim.restart_raised:
                for mj in sim.jobs:
                    if mj.handle is None or mj.discarded:
                        continue
                    if not mj.resolved():
                        why = 'plain'
                        if mj.events.get('putfail') or getattr(mj, 'unpicklable', 0):
                            why = 'putfail'
                        elif any(p.owner and not sim.by_pid[p.owner].alive
                                 and not p.ready_delivered
                                 for p in mj.parts.values()):
                            why = 'ack-after-reap' if getattr(
                                mj, 'late_ack', False) else 'dead-owner'
                        elif sim.closed and (
                                sim.config.get('maxtasks') or
                                not any(p.alive for p in sim.procs)):
                            raise Violation(
                                'C01/unresolved/closed-unsupervised',
                                'job %d (%s) never resolved: the pool was closed '
                                'and exited workers were not replaced' % (
                                    mj.idx, mj.kind))
                        grp = 'C04' if why in ('dead-owner', 'ack-after-reap') \
                            and self.on('c04') \
                            else 'C01'
                        raise Violation('%s/unresolved/%s/%s' % (grp, mj.kind, why),
                                        'job %d never resolved (parts: %s)' % (
                                            mj.idx, self.parts_desc(mj)))
                    if mj.kind in ('imap', 'imap_unordered'):
                        self.check_imap_complete(mj)
        if self.on('c01'):
            for mj in sim.jobs:
                if mj.handle is None or mj.discarded or sim.restart_raised:
                    continue
                accepted = all(p.ack_delivered for p in mj.parts.values()) \
                    if mj.parts else True
                if mj.resolved() and accepted and mj.jobid in pool._cache:
                    raise Violation('C01/cache-leak/%s' % mj.kind,
                                    'job %d resolved and accepted but still in '
                                    'the cache' % mj.idx)
        if self.on('c10') and not sim.restart_raised:
            sem = pool._putlock
            if sem._value != sem._initial_value:
                why = 'plain'
                if any(getattr(mj, 'hard_fired', False) and
                       mj.parts[None].ready_delivered for mj in sim.jobs
                       if mj.kind == 'apply' and None in mj.parts):
                    # a job was timed out although its worker had finished it
                    # (READY in flight) and moved on: two slots, one replacement
                    # (open finding D24; looked at first since failed sends,
                    # repaired, no longer explain a leak)
                    why = 'limit-kill-late-ready'
                elif sim.labels & {'putfail_injected', 'putfail_pickle',
                                   'putfail_direct'}:
                    why = 'putfail'
                elif 'discard' in sim.labels:
                    why = 'discard'
                raise Violation('C10/P2-leak/%s' % why, 'value %d bound %d once '
                                'quiet' % (sem._value, sem._initial_value))
        if self.on('c09') or self.on('c07'):
            for proc in sim.procs:
                if proc.guard_waited:
                    credited = proc._target.on_ready_counter.value
                    why = 'late-ready' if proc.late_readies and \
                        proc.completed - credited <= proc.late_readies else 'plain'
                    grp = 'C07/guard-waited/' if self.on('c07') else 'C09/held-up/'
                    raise Violation(grp + why, 'worker %d waited out the 30 s '
                                    'result-consumption guard (completed %d, '
                                    'credited %d)' % (
                                        proc.pid, proc.completed,
                                        proc._target.on_ready_counter.value))

    def check_imap_complete(self, mj):
        got = [y[0] for y in mj.yielded]
        want = [self.expected_part(mj, i) for i in range(mj.nparts)]
        lost = [g for g in got if g[0] == 'err' and g[1] in simpool.POOL_MADE]
        if len(got) != mj.nparts:
            raise Violation('C01/item-count/%s' % mj.kind, 'job %d yielded %d '
                            'items for %d parts' % (mj.idx, len(got), mj.nparts))
        if lost or mj.events.get('putfail'):
            return   # positions of pool-made failures are checked by c04
        if mj.kind == 'imap':
            if got != want:
                raise Violation('C02/imap-order', 'job %d: %r != %r' % (
                    mj.idx, got, want))
        else:
            if sorted(map(repr, got)) != sorted(map(repr, want)):
                raise Violation('C02/imap-multiset', 'job %d: %r vs %r' % (
                    mj.idx, got, want))

    def parts_desc(self, mj):
        out = []
        for p in mj.parts.values():
            out.append('%r:owner=%s taken=%d fin=%d ackd=%d readyd=%d' % (
                p.i, p.owner, p.taken, p.finished, p.ack_delivered,
                p.ready_delivered))
        return '; '.join(out)


def proc_was_alive(sim, proc):
    """was the process alive when the scan began? (an exit recorded during an
    earlier operation means it was already gone; one recorded during the scan
    itself does not)"""
    pos = sim.exit_logpos.get(proc.pid)
    return pos is None or pos > getattr(sim, 'scan_logpos', 0)


def run_case(case, clauses, final_ops=(('quiesce',),), prop=None):
    """returns (signature, detail, labels)"""
    sim = Sim(case['config'])
    orc = Oracle(sim, set(clauses))
    sim.oracle = orc
    if 'c11' in clauses:
        orc.limiter_init()
    sig = detail = None
    try:
        try:
            ops = [list(o) for o in case['ops']] + [list(o) for o in final_ops]
            for op in ops:
                if sim.restart_raised and op[0] not in ('quiesce', 'deliver',
                                                        'finish', 'adv'):
                    continue
                try:
                    res = sim.apply_op(op)
                except (Violation, SimHarnessError):
                    raise
                except RestartFreqExceeded:
                    raise
                except Exception as exc:
                    where = innermost_pool_frame(exc.__traceback__)
                    if where == 'outside':
                        raise
                    import traceback
                    raise Violation(
                        '%s/raised/%s/%s/%s' % (
                            prop or sorted(clauses)[0].upper(), op[0],
                            type(exc).__name__, where),
                        ''.join(traceback.format_exception(exc))[-1500:])
                if res == 'noop':
                    sim.noops = getattr(sim, 'noops', 0) + 1
                orc.after_op(op, res)
            if sim.closed and not sim.joined:
                sim.apply_op(['join'])
                orc.after_op(['join'], None)
            orc.at_quiescence()
        except Violation as v:
            sig, detail = v.signature, v.detail
            detail = '%s\nops executed: %d, t=%.2f' % (detail, len(sim.log),
                                                       CLOCK.now)
    finally:
        labels = set(sim.labels)
        for z in sim.excluded:
            labels.add('excluded:' + z)
        sim.teardown()
    return sig, detail, labels, sim
