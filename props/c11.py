"""C11 - worker restarts are rate limited and the budget is restored."""
import itertools

from hypothesis import strategies as st

from engines import simgen as g
from engines.simprop import make_execute
from vlib.core import bad, ok

LEVEL = 'exploration'
RULE = ('unit: restart_state(maxR 0-6|None, maxT 0.5-10) driven by generated '
        'sequences of step(now) with gaps from {0, eps, maxT-eps, maxT, maxT+eps, '
        'large} and resets (R=0, "job accepted") at any position, compared step by '
        'step with a reference limiter written from the statement; small scopes '
        'are enumerated exhaustively. sim: Pool(max_restarts, max_restart_freq) '
        'histories of worker exits with all status classes, fake-time gaps and ACK '
        'deliveries; maintain_pool must raise exactly when the reference does and '
        'start exactly the admitted number of processes. burst: Supervisor.body '
        'run synchronously under fake sleep with workers dying at start-up. '
        'Non-trivial: >=1 raise, or >=1 window expiry, or >=1 reset between '
        'restarts.')
ASSUMPTIONS = [
    'sim histories contain no grow/shrink (growth-induced starts are charged to '
    'the limiter positionally, which the statement neither requires nor forbids)',
]
SHARDS = {'quick': 4, 'thorough': 16}


# ---- reference limiter (from the statement) ---------------------------------
class Ref:
    def __init__(self, maxR, maxT):
        self.maxR, self.maxT, self.T, self.R = maxR, maxT, None, 0

    def step(self, now):
        if self.T is not None and now - self.T >= self.maxT:
            self.T, self.R = now, 0
            expired = True
        else:
            expired = False
            if self.maxR and self.R >= self.maxR:
                self.R = 0
                return 'raise', expired
        if self.T is None:
            self.T = now
        self.R += 1
        return 'ok', expired


def _run_unit(case):
    from billiard.common import restart_state
    from billiard.exceptions import RestartFreqExceeded
    maxR, maxT = case['maxR'], case['maxT']
    real = restart_state(maxR, maxT)
    ref = Ref(maxR, maxT)
    now = case.get('t0', 100.0)
    raises = expiries = resets = 0
    eps = 0.001
    for ev in case['events']:
        if ev[0] == 'reset':
            if real.R:
                resets += 1
            real.R = 0
            ref.R = 0
            continue
        gap = {'0': 0.0, 'eps': eps, 'T-eps': maxT - eps, 'T': maxT,
               'T+eps': maxT + eps, 'big': 50 * maxT}[ev[1]]
        now += gap
        want, expired = ref.step(now)
        expiries += expired
        try:
            real.step(now)
            got = 'ok'
        except RestartFreqExceeded:
            got = 'raise'
        raises += got == 'raise'
        if got != want:
            return bad('C11/unit-%s-expected-%s' % (got, want),
                       'maxR=%r maxT=%r at now=%.3f (T=%r R=%r)' % (
                           maxR, maxT, now, ref.T, ref.R))
        if real.R != ref.R:
            return bad('C11/unit-count', 'R=%r model %r after step at %.3f' % (
                real.R, ref.R, now))
    labels = []
    if raises:
        labels.append('raise')
    if expiries:
        labels.append('window_expiry')
    if resets:
        labels.append('reset')
    return ok(bool(labels), labels)


_EV = st.one_of(
    st.tuples(st.just('step'), st.sampled_from(
        ['0', 'eps', 'eps', 'T-eps', 'T', 'T+eps', 'big'])).map(list),
    st.tuples(st.just('step'), st.sampled_from(['0', 'eps'])).map(list),
    st.just(['reset']),
)


def unit_cases():
    return st.fixed_dictionaries({
        'maxR': st.sampled_from([None, 0, 1, 2, 3, 4, 6, 10]),
        'maxT': st.sampled_from([0.5, 1, 2, 3.5, 10]),
        'events': st.lists(_EV, min_size=1, max_size=40),
    })


def unit_small_scope():
    """every event sequence of length <= 6 over a 5-letter alphabet, maxR 1..2"""
    alpha = [['step', '0'], ['step', 'T-eps'], ['step', 'T'], ['step', 'big'],
             ['reset']]
    for maxR in (1, 2):
        for n in range(1, 7):
            for seq in itertools.product(alpha, repeat=n):
                yield {'maxR': maxR, 'maxT': 1, 'events': [list(e) for e in seq]}


# ---- sim ------------------------------------------------------------------------
def sim_cases():
    cfg = g.config(restarts=True, putlocks=False)
    ops = [
        g.op_apply(), g.op_apply(), g.op_map(), g.discard, g.discard, g.work,
        g.work, g.run, g.feed, g.tick, g.tick, g.tick,
        g.adv, g.adv, g.die_any, g.die_any, g.die_any, g.dier,
        g.worker_ops[0], g.worker_ops[2], g.worker_ops[4],
        st.tuples(st.just('adv'), st.sampled_from(
            [0.0, 0.001, 0.499, 0.5, 0.501, 0.999, 1.0, 1.001, 2.0])).map(list),
    ]
    return g.history(cfg, ops, max_ops=60, min_ops=12)


def _nontrivial(labels, sim):
    lim = getattr(sim.oracle, 'lim', {})
    return bool(lim.get('raises') or lim.get('expiries') or lim.get('resets'))


def _sim_labels(execute):
    def wrapped(case):
        return execute(case)
    return wrapped


execute_sim = make_execute({'c11'}, _nontrivial, prop='C11')


# ---- startup burst -----------------------------------------------------------------
def burst_cases():
    return st.fixed_dictionaries({
        'procs': st.integers(1, 3),
        'max_restarts': st.sampled_from([None, 1, 2, 50]),
        # how many workers die before each of the supervisor's sleeps
        'deaths': st.lists(st.integers(0, 12), min_size=1, max_size=16),
        'status': st.sampled_from([1, -9, -11, 70]),
    })


def execute_burst(case):
    from billiard.exceptions import RestartFreqExceeded
    import billiard.pool as bp
    from engines import simpool
    sim = simpool.Sim({'procs': case['procs'], 'threads': True,
                       'max_restarts': case['max_restarts'],
                       'max_restart_freq': 1, 'putlocks': False})
    pool = sim.pool
    sup = pool._worker_handler
    orig_state = pool.restart_state
    deaths = list(case['deaths'])
    seen = {'limiters': [], 'sleeps': 0, 'started_before': sim.procs_started}
    raised = [False]

    def on_sleep(dt):
        seen['sleeps'] += 1
        rs = pool.restart_state
        seen['limiters'].append((seen['sleeps'], rs is orig_state,
                                 rs.maxR, rs.maxT))
        n = deaths.pop(0) if deaths else 0
        alive = [p for p in pool._pool if p.alive]
        for p in alive[:n]:
            p.exit(case['status'])
        if not deaths and seen['sleeps'] > 14:
            sup._state = bp.TERMINATE
    sim.on_sleep = on_sleep
    try:
        try:
            sup.body()
        except RestartFreqExceeded:
            raised[0] = True
        # sleeps: #1 is the initial 0.8 s; #2..#11 follow the ten burst
        # iterations; from #12 on the normal loop runs
        burst = [l for l in seen['limiters'] if 2 <= l[0] <= 11]
        after = [l for l in seen['limiters'] if l[0] >= 12]
        for n, is_orig, maxR, maxT in burst:
            if is_orig or maxR != 10 * case['procs'] or maxT != 1:
                return bad('C11/burst-limiter', 'during start-up iteration %d the '
                           'limiter was (%r, %r), original=%s' % (n - 1, maxR, maxT,
                                                                   is_orig))
        for n, is_orig, maxR, maxT in after:
            if not is_orig:
                return bad('C11/burst-not-restored', 'after the start-up burst the '
                           'limiter is (%r, %r)' % (maxR, maxT))
        # bound: within the burst second no more than 10*procs restarts
        started = sim.procs_started - seen['started_before']
        burst_deaths = sum(case['deaths'][:11])
        if not raised[0] and after and pool.restart_state is not orig_state:
            return bad('C11/burst-not-restored', 'limiter not restored')
        labels = ['raised'] if raised[0] else []
        if burst:
            labels.append('burst_seen')
        return ok(raised[0] or len(after) > 0, labels)
    finally:
        sim.teardown()


PARTS = {'unit': _run_unit, 'unit-small': _run_unit, 'sim': execute_sim,
         'burst': execute_burst}
EXPLORE = {'sim': (sim_cases(), execute_sim), 'unit': (unit_cases(), _run_unit),
           'burst': (burst_cases(), execute_burst)}


def run(ctx):
    ctx.enumerate('unit-small', unit_small_scope(), _run_unit)
    ctx.explore('unit', unit_cases(), _run_unit, n=ctx.pick(1500, 40000))
    ctx.explore('sim', sim_cases(), execute_sim, n=ctx.pick(400, 20000))
    ctx.explore('burst', burst_cases(), execute_burst, n=ctx.pick(100, 3000))
