"""C09 - pool keeps its size; workers are recycled on schedule without harm."""
from engines import realparts as rp
from engines import simgen as g
from engines.simprop import make_execute
from props import c03

LEVEL = 'exploration'
RULE = ('real: maxtasksperchild 1-4, 6-30 apply jobs returning their pid plus a map, pool sizes 1-4. ' 
        'sim: E1 histories with exits (clean 0, recycle 155, error codes, signals) '
        'of any subset of workers between supervision steps, grow/shrink, '
        'submissions, quotas 1-3, pool sizes 1-4. After every supervision step the '
        'pool must be back at the configured size with distinct slot indices; '
        'recycle/clean exits must cause no failure; a worker whose results were all '
        'consumed is never held up by the 30 s guard. Non-trivial: >=2 exits of '
        'different classes in the history, or grow/shrink together with an exit.')
ASSUMPTIONS = [
    'shrink is generated only when no worker holds an undelivered ACK and a slot '
    'is free (the inactive test is best-effort by design); exclusions are counted',
    'the worker-side quota enforcement runs the real worker loop in-process '
    '(part worker, shared with C03): every task class counts toward the quota',
]
SHARDS = {'quick': 8, 'thorough': 16}
WALL_LIMIT = {'quick': 1500, 'thorough': 6 * 3600}


def sim_cases():
    cfg = g.config(maxtasks=True, putlocks=True)
    ops = g.worker_ops + [
        g.op_apply(), g.op_apply(), g.op_map(), g.op_imap(), g.work, g.work,
        g.work, g.feed, g.tick, g.tick, g.tick, g.adv, g.die_any, g.die_any,
        g.dier, g.wexit, g.wexit, g.grow, g.shrink, g.shrink, g.slow, g.run,
        g.straggle.map(lambda o: o[:3] + [False]), g.parkrecycle,
    ]
    return g.history(cfg, ops, max_ops=70, min_ops=15)


def _cls(status):
    if status == 0:
        return 'clean'
    if status == 155:
        return 'recycle'
    return 'signal' if status < 0 else 'error'


def _nontrivial(labels, sim):
    classes = set(_cls(e[1]) for e in sim.exits)
    return len(classes) >= 2 or (bool(sim.exits) and
                                 bool(labels & {'grow', 'shrink'}))


execute_sim = make_execute({'c09', 'c04'}, _nontrivial, prop='C09')
PARTS = {'sim': execute_sim, 'real': rp.execute_c09,
         'worker': c03.execute_worker}
EXPLORE = {'sim': (sim_cases(), execute_sim), 'real': (rp.c09_cases(), rp.execute_c09),
           'worker': (c03.worker_cases(), c03.execute_worker)}


def memlimit_cases():
    from hypothesis import strategies as st
    return st.fixed_dictionaries({
        'n': st.integers(1, 8), 'quota': st.sampled_from([None, 3, 10]),
        'synack': st.booleans()})


def execute_memlimit(case):
    """a worker whose memory limit is exceeded after every task (limit 1 KiB):
    it must finish that task (ACK + READY), exit with the recycle status and
    leave the rest unread - nothing lost, duplicated or failed"""
    import billiard.pool as bp
    from engines import targets_c12, workerloop
    from vlib.core import bad, ok

    class LimitedWorker(bp.Worker):
        def __init__(self, *a, **kw):
            kw['max_memory_per_child'] = 1
            bp.Worker.__init__(self, *a, **kw)
    n = case['n']
    payload = [(100 + k, None, targets_c12.task, (k, {'kind': 'ret', 'value': k}),
                {}) for k in range(n)]
    res = workerloop.run(payload, quota=case['quota'],
                         synack=[True] * n if case['synack'] else None,
                         count_ready=True, timeout=20.0, worker_cls=LimitedWorker)
    kinds = [m.kind for m in res.messages]
    if res.outcome != ('return', 0x9B):
        return bad('C09/memlimit-status', 'loop ended with %r' % (res.outcome,))
    if kinds != ['ACK', 'READY'] or not res.messages[1].ok or \
            res.messages[1].value != 0 or res.messages[1].job != 100:
        return bad('C09/memlimit-result', 'stream %r' % (res.messages,))
    if [w for w in res.witness if isinstance(w, int)] != [0]:
        return bad('C09/memlimit-executed', 'executed %r' % (res.witness,))
    left = [m for m in res.leftover_inq if m is not None]
    if len(left) != n - 1:
        return bad('C09/memlimit-overread', '%d tasks left unread of %d' % (
            len(left), n - 1))
    return ok(n >= 2, ['memlimit'])


PARTS['memlimit'] = execute_memlimit


def run(ctx):
    ctx.explore('memlimit', memlimit_cases(), execute_memlimit,
                n=ctx.pick(10, 200))
    ctx.explore('sim', sim_cases(), execute_sim, n=ctx.pick(250, 25000))
    # the quota is enforced by the worker loop: real workloop, every task class
    ctx.explore('worker', c03.worker_cases(), c03.execute_worker,
                n=ctx.pick(60, 3000))
    ctx.explore('real', rp.c09_cases(), rp.execute_c09, n=ctx.pick(2, 30),
                shrink_budget=6, reexecute_confirm=2)
