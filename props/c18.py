"""C18 - connection authentication is mutual and exact.

Parts
  pipe     generated key pairs over Pipe(); the two halves of the handshake
           (listener order / client order) run in two threads
  sock     the same key pairs through Listener.accept() / Client() over
           AF_UNIX and AF_INET
  hostile  the harness plays one side by hand on a raw socket with its own
           HMAC-MD5 and deviates at any of the three handshake steps; the honest
           side is deliver/answer_challenge on a Pipe() end, or the real
           Listener.accept() / Client() over AF_UNIX / AF_INET
  fresh    n conforming connections in a row against one honest side: every
           challenge it issues is new (also checked across all cases of a run)
  types    non-bytes keys handed to Listener(...) / Client(...)

Known zone kept out of the generator (see RULE / report): two *different*
keys whose HMAC-normalised form is equal (zero padding up to the 64-byte
block, MD5 of longer keys) authenticate to each other.  ``execute`` stays
strict about it (signature C18/hmac-equivalent-keys-accepted); the generator
maps such pairs out of the zone and counts them as excluded.
"""
import fcntl
import gc
import hashlib
import os
import select
import shutil
import socket
import stat
import struct
import tempfile
import termios
import threading
import time

from hypothesis import strategies as st

from vlib.core import bad, inconclusive, ok

LEVEL = 'exploration'
RULE = (
    'Keys are built by construction from a spec (explicit bytes 1-24 long | '
    'SHAKE-expanded seed of length 1-4096, boundary lengths around 16/64/128/'
    '256/4096 favoured | one repeated byte) and a relation giving the second '
    'key (equal | one bit flipped anywhere | proper prefix | extension by 1-8 '
    'bytes | independent | near miss of the HMAC-equivalent key); which key '
    'sits on the listener side is generated too. pipe/sock: non-trivial = the '
    'two keys differ. hostile: per case a role for the honest side (listener '
    'order / client order), a transport (Pipe end | Listener/Client over '
    'AF_UNIX | AF_INET) and one message choice for each of the three things a '
    'peer sends (digest, challenge, verdict), drawn so that ~10% of cases '
    'conform everywhere, ~70% deviate at exactly one step and ~20% at several; '
    'non-trivial = at least one step deviates. fresh/types cases are counted '
    'but never non-trivial. Distinct = distinct canonical JSON of the case. '
    'Different keys with equal HMAC-normalised form are mapped out of the '
    'domain by construction (last byte of the longer key xor 1) and counted '
    'under excluded_by_construction.')
ASSUMPTIONS = [
    'the reference digest is an independent HMAC-MD5 written from RFC 2104 on '
    'top of hashlib.md5 (the hmac module is not used by the harness)',
    'the listener order deliver_challenge;answer_challenge and the client '
    'order answer_challenge;deliver_challenge are replayed by the harness on '
    'Pipe() ends exactly as Listener.accept()/Client() call them',
    'a handshake is called hung only when every side still running sleeps in a '
    'blocking read/accept on a descriptor with nothing to read while the harness '
    'has nothing to send, unchanged over >=20 observations in >=2 s (read from '
    '/proc/self/task/<tid>/syscall, x86_64/aarch64 Linux); elsewhere: nothing '
    'moved for 120 s; a case still moving after 120 s is inconclusive',
    'a peer that goes silent (sends nothing, keeps the socket open) is not a '
    'response and is not generated: the protocol has no timeout of its own',
    'authkey=None is the API\'s "no authentication" and is not treated as a '
    'non-bytes key',
]
SHARDS = {'quick': 8, 'thorough': 16}

# A handshake is declared hung on structure, not on time: every side that is
# still running sleeps in a blocking read()/recv()/accept() on a descriptor
# with nothing to read (seen through /proc/self/task/<tid>/syscall), the
# harness has nothing left to send, and that picture stays identical (same
# syscalls, same voluntary context switch counts) over >= DEAD_POLLS polls
# spread over >= DEAD_S.  Stalls of the whole box (seen: several seconds under
# 5x CPU oversubscription) cannot produce that picture: a starved thread is
# runnable or has readable input.  Where /proc does not show syscalls the
# fallback is "nothing moved for HANG_S".  A case still moving after HANG_S
# is inconclusive.
DEAD_S = 2.0
DEAD_POLLS = 20
HANG_S = 120.0
# True: the generator never emits two different keys with the same
# HMAC-normalised form (the zone of the known violation).  False lets it in.
AVOID_HMAC_EQUIV = True

CHALLENGE = b'#CHALLENGE#'
WELCOME = b'#WELCOME#'
FAILURE = b'#FAILURE#'
CHALLENGE_LEN = 20


# ---------------------------------------------------------------------------
# independent HMAC-MD5
# ---------------------------------------------------------------------------

def _norm(key):
    if len(key) > 64:
        key = hashlib.md5(key).digest()
    return key + b'\x00' * (64 - len(key))


def ref_hmac_md5(key, msg):
    block = _norm(key)
    inner = hashlib.md5(bytes(b ^ 0x36 for b in block) + msg).digest()
    return hashlib.md5(bytes(b ^ 0x5c for b in block) + inner).digest()


# ---------------------------------------------------------------------------
# keys
# ---------------------------------------------------------------------------

def _key(spec):
    if 'b' in spec:
        return bytes(x % 256 for x in spec['b'])
    n = max(0, int(spec['n']))
    if 's' in spec:
        return hashlib.shake_256(b'c18/%d' % spec['s']).digest(n)
    return bytes([spec['r'] % 256]) * n


def _flip(data, bitpos):
    bitpos %= len(data) * 8
    out = bytearray(data)
    out[bitpos // 8] ^= 1 << (bitpos % 8)
    return bytes(out)


def _pair(case, fix=None):
    """(k1, k2, relation) - k1 goes to the listener side"""
    k1 = _key(case['key'])
    rel = case['rel']
    kind = rel.get('k', 'eq')
    if not k1:
        return k1, k1, kind
    if kind == 'bit':
        k2 = _flip(k1, rel['a'])
    elif kind == 'pre':
        if len(k1) >= 2:
            k2 = k1[:1 + rel['a'] % (len(k1) - 1)]
        else:
            k2 = k1 + bytes([rel['a'] % 256])
    elif kind == 'ext':
        k2 = k1 + bytes(x % 256 for x in rel['e'])
    elif kind == 'ind':
        k2 = _key(rel['key'])
    elif kind == 'heq':
        if len(k1) > 64:
            k2 = hashlib.md5(k1).digest()
        elif len(k1) < 64:
            k2 = k1 + b'\x00' * (1 + rel['a'] % (64 - len(k1)))
        else:
            k2 = _flip(k1, -1)
    else:
        k2 = k1
    if (case.get('fix') if fix is None else fix) and k1 != k2:
        if len(k2) >= len(k1):
            k2 = k2[:-1] + bytes([k2[-1] ^ 1])
        else:
            k1 = k1[:-1] + bytes([k1[-1] ^ 1])
    if case.get('swap'):
        k1, k2 = k2, k1
    return k1, k2, kind


def _avoid(case):
    """generator-side exclusion of the known zone, by construction"""
    if not AVOID_HMAC_EQUIV:
        return case
    k1, k2, _ = _pair(case, fix=False)
    if k1 and k2 and k1 != k2 and _norm(k1) == _norm(k2):
        case = dict(case, fix=1)
    return case


def _pair_labels(k1, k2, kind, case):
    labels = ['equal' if k1 == k2 else 'unequal', 'rel=' + kind]
    m = max(len(k1), len(k2))
    if m > 64:
        labels.append('len>64')
    if m >= 1024:
        labels.append('len>=1024')
    if k1 != k2 and (k1.startswith(k2) or k2.startswith(k1)):
        labels.append('one-is-prefix')
    if k1 != k2 and len(k1) == len(k2) and \
            sum(bin(x ^ y).count('1') for x, y in zip(k1, k2)) == 1:
        labels.append('one-bit-apart')
    if case.get('fix'):
        labels.append('near-hmac-equivalent')
    return labels


_BYTE = st.one_of(st.sampled_from([0, 0, 1, 0x80, 0xff, 0x36, 0x5c]),
                  st.integers(0, 255))
_LEN = st.one_of(
    st.sampled_from([1, 2, 3, 15, 16, 17, 32, 63, 64, 65, 66, 127, 128, 129,
                     255, 256, 257, 1000, 1024, 4095, 4096]),
    st.integers(1, 4096), st.integers(1, 80))
_KEYSPEC = st.one_of(
    st.fixed_dictionaries({'b': st.lists(_BYTE, min_size=1, max_size=24)}),
    st.fixed_dictionaries({'b': st.lists(_BYTE, min_size=1, max_size=24)}),
    st.fixed_dictionaries({'s': st.integers(0, 2 ** 32 - 1), 'n': _LEN}),
    st.fixed_dictionaries({'s': st.integers(0, 2 ** 32 - 1), 'n': _LEN}),
    st.fixed_dictionaries({'r': st.sampled_from([0, 0, 255, 0x36, 0x5c, 65]),
                           'n': _LEN}),
)
_BITPOS = st.one_of(st.sampled_from([0, 1, 7, 8, -1, -2, -8, -9, 127, 128,
                                     511, 512]),
                    st.integers(-64, 8 * 4096))
_REL = st.one_of(
    st.just({'k': 'eq'}),
    st.just({'k': 'eq'}),
    st.fixed_dictionaries({'k': st.just('bit'), 'a': _BITPOS}),
    st.fixed_dictionaries({'k': st.just('bit'), 'a': _BITPOS}),
    st.fixed_dictionaries({'k': st.just('pre'), 'a': st.integers(-8, 4096)}),
    st.fixed_dictionaries({'k': st.just('ext'),
                           'e': st.lists(_BYTE, min_size=1, max_size=8)}),
    st.fixed_dictionaries({'k': st.just('ind'), 'key': _KEYSPEC}),
    st.fixed_dictionaries({'k': st.just('heq'), 'a': st.integers(0, 63)}),
)


def pipe_cases():
    return st.fixed_dictionaries({
        'key': _KEYSPEC, 'rel': _REL, 'swap': st.booleans(),
    }).map(_avoid)


def sock_cases():
    return st.fixed_dictionaries({
        'key': _KEYSPEC, 'rel': _REL, 'swap': st.booleans(),
        'family': st.sampled_from(['unix', 'inet']),
        # hand the key over as billiard.process.AuthenticationString (the type
        # of current_process().authkey, a bytes subclass) instead of bytes
        'w1': st.booleans(), 'w2': st.booleans(),
    }).map(_avoid)


# ---------------------------------------------------------------------------
# harness plumbing: threads that cannot outlive a case
# ---------------------------------------------------------------------------

class _Mods:
    """billiard names, imported late (VERIF_REPO decides which tree)"""

    def __init__(self):
        import billiard
        from billiard import connection
        from billiard.process import AuthenticationString
        self.AuthErr = billiard.AuthenticationError
        self.Pipe = connection.Pipe
        self.deliver = connection.deliver_challenge
        self.answer = connection.answer_challenge
        self.Listener = connection.Listener
        self.Client = connection.Client
        self.AuthenticationString = AuthenticationString


def _fds():
    out = set()
    for name in os.listdir('/proc/self/fd'):
        fd = int(name)
        try:
            os.fstat(fd)
        except OSError:
            continue    # the descriptor listdir itself used
        out.add(fd)
    return out


def _new_sockets(base):
    out = []
    for fd in sorted(_fds() - base):
        try:
            if stat.S_ISSOCK(os.fstat(fd).st_mode):
                out.append(fd)
        except OSError:
            pass
    return out


def _unread(fd):
    buf = struct.pack('i', 0)
    try:
        return struct.unpack('i', fcntl.ioctl(fd, termios.FIONREAD, buf))[0]
    except OSError:
        return 0


def _shutdown_fd(fd):
    try:
        s = socket.socket(fileno=os.dup(fd))
    except OSError:
        return
    try:
        s.shutdown(socket.SHUT_RDWR)
    except OSError:
        pass
    finally:
        s.close()


class _Runner(threading.Thread):
    """runs fn(*args), keeps only a description of what happened (never the
    exception object: its traceback would pin the connection)"""

    def __init__(self, autherr, fn, *args, **kw):
        threading.Thread.__init__(self, daemon=True)
        self.on_exc = kw.pop('on_exc', None)
        self.autherr, self.fn, self.args = autherr, fn, args
        self.out = None
        self.was_blocked = False     # had to be cut loose by the harness
        self.wake_r, self.wake_w = os.pipe()

    def run(self):
        try:
            try:
                self.out = ('ok', self.fn(*self.args))
            except BaseException as exc:
                self.out = ('exc', type(exc).__name__,
                            isinstance(exc, self.autherr), str(exc)[:160])
            if self.out[0] == 'exc' and self.on_exc is not None:
                self.on_exc()
        finally:
            self.fn = self.args = self.on_exc = None
            os.write(self.wake_w, b'x')

    def dispose(self):
        for fd in (self.wake_r, self.wake_w):
            try:
                os.close(fd)
            except OSError:
                pass

    def describe(self):
        if self.was_blocked or self.out is None:
            return 'was blocked for good'
        if self.out[0] == 'ok':
            return 'completed'
        return 'raised %s(%r)' % (self.out[1], self.out[3])


_BLOCKING_READS = {
    'x86_64': {0: 'read', 45: 'recvfrom', 47: 'recvmsg', 43: 'accept',
               288: 'accept4'},
    'aarch64': {63: 'read', 207: 'recvfrom', 212: 'recvmsg', 202: 'accept',
                242: 'accept4'},
}.get(os.uname().machine)


def _sleeping_in_read(tid):
    """(syscall nr, fd, voluntary switches) when kernel thread `tid` of this
    process sleeps in a blocking read/accept, None when it does anything else,
    'unsupported' when that cannot be told here"""
    if _BLOCKING_READS is None:
        return 'unsupported'
    try:
        with open('/proc/self/task/%d/syscall' % tid) as f:
            fields = f.read().split()
        with open('/proc/self/task/%d/status' % tid) as f:
            status = f.read()
    except (FileNotFoundError, ProcessLookupError):
        return None             # gone meanwhile
    except OSError:
        return 'unsupported'
    try:
        nr, fd = int(fields[0]), int(fields[1], 16)
    except (ValueError, IndexError):
        return None             # 'running', or not inside a syscall
    if nr not in _BLOCKING_READS:
        return None
    state = vol = None
    for line in status.splitlines():
        if line.startswith('State:'):
            state = line.split()[1]
        elif line.startswith('voluntary_ctxt_switches:'):
            vol = int(line.split()[1])
    if state != 'S':
        return None
    return nr, fd, vol


def _deadlock_picture(runners):
    """a hashable picture of 'everybody still running waits for input that is
    not there', or None when that is not the situation right now"""
    pic = []
    for r in runners:
        if not r.is_alive():
            continue
        tid = r.native_id
        where = _sleeping_in_read(tid) if tid else None
        if where == 'unsupported':
            return 'unsupported'
        if where is None:
            return None
        try:
            readable, _, _ = select.select([where[1]], [], [], 0)
        except (OSError, ValueError):
            return None
        if readable:
            return None
        pic.append((tid,) + where)
    return tuple(pic) or None


class _Watch:
    """progress monitor of one case; poll() -> 'hung' / 'slow' / None.  Only
    polled while the harness itself waits and has nothing to send."""

    def __init__(self, base, runners):
        self.base, self.runners = base, runners
        self.t0 = self.quiet_since = self.dead_since = time.monotonic()
        self.last = self.dead = None
        self.dead_polls = 0

    def poll(self):
        now = time.monotonic()
        pic = _deadlock_picture(self.runners)
        if pic == 'unsupported':
            state = (tuple(r.is_alive() for r in self.runners),
                     tuple((fd, _unread(fd)) for fd in _new_sockets(self.base)))
            if state != self.last:
                self.last, self.quiet_since = state, now
            if now - self.quiet_since >= HANG_S:
                return 'hung'
        elif pic is not None and pic == self.dead:
            self.dead_polls += 1
            if self.dead_polls >= DEAD_POLLS and now - self.dead_since >= DEAD_S:
                return 'hung'
        else:
            self.dead, self.dead_polls, self.dead_since = pic, 0, now
        if now - self.t0 >= HANG_S + 5:
            return 'slow'
        return None


def _wait(runners, watch):
    """until every runner has finished (None) or the watch gives up"""
    while True:
        alive = [r for r in runners if r.is_alive()]
        if not alive:
            return None
        alive[0].join(0.05)
        if alive[0].is_alive():
            verdict = watch.poll()
            if verdict:
                return verdict


def _cut(runners, base):
    """unblock whatever still runs by shutting the case's sockets down"""
    for r in runners:
        if r.is_alive():
            r.was_blocked = True
    for fd in _new_sockets(base):
        _shutdown_fd(fd)
    for r in runners:
        r.join(HANG_S)      # its sockets are dead: it only needs to be scheduled
    if any(r.is_alive() for r in runners):
        raise RuntimeError('C18 harness: a handshake thread could not be '
                           'unblocked')


def _settle(runners, base):
    """Returns None (all finished by themselves), 'hung' or 'slow'.  Whatever
    happens no runner is alive on return."""
    verdict = _wait(runners, _Watch(base, runners))
    if verdict:
        _cut(runners, base)
    return verdict


def _leak_labels(base, threads0):
    labels = []
    if _fds() - base:
        gc.collect()
        if _fds() - base:
            labels.append('harness-leaked-fd')
    if threading.active_count() > threads0:
        labels.append('harness-leaked-thread')
    return labels


def _exchange(c1, c2, tag):
    """one message each way over two connected billiard connections"""
    for src, dst, name in ((c1, c2, 'listener->client'),
                           (c2, c1, 'client->listener')):
        msg = b'c18/' + tag + b'/' + name.encode()
        src.send_bytes(msg)
        if not dst.poll(HANG_S):
            return '%s: nothing arrived' % name
        got = dst.recv_bytes()
        if got != msg:
            return '%s: sent %r got %r' % (name, msg, got)
    return None


def _judge_pair(k1, k2, r1, r2, hang):
    """oracle shared by pipe and sock; returns Outcome or None (then, for
    equal keys, the caller still has to try the connection)"""
    what = 'listener side (key %d bytes) %s; client side (key %d bytes) %s' % (
        len(k1), r1.describe(), len(k2), r2.describe())
    if hang == 'slow':
        return inconclusive('handshake still moving after %gs: %s' % (
            HANG_S, what))
    if k1 == k2:
        if hang:
            return bad('C18/equal-keys-hung', what)
        if r1.out[0] != 'ok' or r2.out[0] != 'ok':
            return bad('C18/equal-keys-refused', what)
        return None
    if hang:
        # blocked forever instead of AuthenticationError
        return bad('C18/unequal-keys-hung', what)
    if r1.out[0] == 'ok' or r2.out[0] == 'ok':
        if _norm(k1) == _norm(k2):
            return bad('C18/hmac-equivalent-keys-accepted',
                       'k1=%r k2=%r: %s' % (k1[:80], k2[:80], what))
        return bad('C18/unequal-keys-accepted', what)
    if not (r1.out[2] and r2.out[2]):
        return bad('C18/unequal-keys-wrong-error', what)
    return None


# ---------------------------------------------------------------------------
# part pipe
# ---------------------------------------------------------------------------

def execute_pipe(case):
    k1, k2, kind = _pair(case)
    if not k1 or not k2:
        return ok(False, ['invalid-empty-key'])
    m = _Mods()
    base, threads0 = _fds(), threading.active_count()
    a, b = m.Pipe()

    def listener_order(conn, key):
        m.deliver(conn, key)
        m.answer(conn, key)

    def client_order(conn, key):
        m.answer(conn, key)
        m.deliver(conn, key)

    # a side that fails drops its connection, as accept()/Client() do
    ra = _Runner(m.AuthErr, listener_order, a, k1, on_exc=a.close)
    rb = _Runner(m.AuthErr, client_order, b, k2, on_exc=b.close)
    try:
        ra.start()
        rb.start()
        hang = _settle([ra, rb], base)
        out = _judge_pair(k1, k2, ra, rb, hang)
        if out is None and k1 == k2:
            err = _exchange(a, b, b'pipe')
            if err:
                out = bad('C18/connection-unusable', err)
    finally:
        a.close()
        b.close()
        ra.dispose()
        rb.dispose()
    if out is not None:
        return out
    labels = _pair_labels(k1, k2, kind, case) + _leak_labels(base, threads0)
    return ok(k1 != k2, labels)


# ---------------------------------------------------------------------------
# part sock
# ---------------------------------------------------------------------------

def _address(family, tmp):
    if family == 'unix':
        return os.path.join(tmp, 'l'), 'AF_UNIX'
    return ('127.0.0.1', 0), 'AF_INET'


def execute_sock(case):
    k1, k2, kind = _pair(case)
    if not k1 or not k2:
        return ok(False, ['invalid-empty-key'])
    m = _Mods()
    base, threads0 = _fds(), threading.active_count()
    tmp = tempfile.mkdtemp(prefix='c18-')
    listener = rl = rc = None
    conns = []
    out = None
    try:
        address, family = _address(case['family'], tmp)
        a1 = m.AuthenticationString(k1) if case.get('w1') else k1
        a2 = m.AuthenticationString(k2) if case.get('w2') else k2
        listener = m.Listener(address, family, authkey=a1)
        rl = _Runner(m.AuthErr, listener.accept)
        rc = _Runner(m.AuthErr, m.Client, listener.address, None, a2)
        rl.start()
        rc.start()
        hang = _settle([rl, rc], base)
        for r in (rl, rc):
            if r.out is not None and r.out[0] == 'ok':
                conns.append(r.out[1])
        out = _judge_pair(k1, k2, rl, rc, hang)
        if out is None and k1 == k2:
            err = _exchange(rl.out[1], rc.out[1], case['family'].encode())
            if err:
                out = bad('C18/connection-unusable', err)
    finally:
        for c in conns:
            c.close()
        if listener is not None:
            listener.close()
        for r in (rl, rc):
            if r is not None:
                r.out = None
                r.dispose()
        del conns[:]
        shutil.rmtree(tmp, ignore_errors=True)
    if out is not None:
        return out
    labels = _pair_labels(k1, k2, kind, case) + ['family=' + case['family']]
    if case.get('w1') or case.get('w2'):
        labels.append('AuthenticationString')
    return ok(k1 != k2, labels + _leak_labels(base, threads0))


# ---------------------------------------------------------------------------
# part hostile: the harness is the peer
# ---------------------------------------------------------------------------

class _Peer:
    """raw, never-blocking end of the connection (4-byte signed big-endian
    length + payload, written here independently of billiard's framing)"""

    def __init__(self, sock):
        self.s = sock
        sock.setblocking(False)
        self.buf = b''
        self.eof = False

    def send_raw(self, data):
        end = time.monotonic() + HANG_S
        view = memoryview(data)
        while view:
            try:
                n = self.s.send(view)
                view = view[n:]
            except BlockingIOError:
                if time.monotonic() > end:
                    return False
                select.select([], [self.s], [], 0.1)
            except OSError:
                return False
        return True

    def send_frame(self, payload):
        return self.send_raw(struct.pack('!i', len(payload)) + payload)

    def half_close(self):
        try:
            self.s.shutdown(socket.SHUT_WR)
        except OSError:
            pass

    def recv_frame(self, runner, watch):
        """('frame', payload) | ('eof', rest) | ('idle', rest): the honest side
        has finished and sent nothing more | ('hung' | 'slow', rest)"""
        while True:
            if len(self.buf) >= 4:
                n, = struct.unpack('!i', self.buf[:4])
                if n < 0:
                    return 'garbage', self.buf
                if len(self.buf) >= 4 + n:
                    data = self.buf[4:4 + n]
                    self.buf = self.buf[4 + n:]
                    return 'frame', data
            if self.eof:
                return 'eof', self.buf
            r, _, _ = select.select([self.s, runner.wake_r], [], [], 0.05)
            if not r:
                verdict = watch.poll()
                if verdict:
                    return verdict, self.buf
                continue
            if self.s in r:
                try:
                    chunk = self.s.recv(65536)
                except BlockingIOError:
                    continue
                except OSError:
                    chunk = b''
                if chunk:
                    self.buf += chunk
                else:
                    self.eof = True
                continue
            if runner.wake_r in r:
                return 'idle', self.buf

    def close(self):
        self.s.close()


def _accept_or_done(lsock, runner, deadline):
    """the connection the honest client opens, or None when the client
    finished (or nothing happened until the deadline) without connecting"""
    lsock.setblocking(False)
    while True:
        try:
            return lsock.accept()[0]
        except BlockingIOError:
            pass
        left = deadline - time.monotonic()
        if left <= 0:
            return None
        r, _, _ = select.select([lsock, runner.wake_r], [], [], min(left, 1.0))
        if lsock not in r and runner.wake_r in r:
            try:
                return lsock.accept()[0]
            except BlockingIOError:
                return None


_DIG_OK = ['ok']
_DIG_DEV = ['bit', 'bit', 'trunc', 'empty', 'ext', 'pad256', 'big257',
            'replay', 'replay', 'welcome', 'failure', 'echo', 'otherkey',
            'hex', 'md5plain', 'zeros', 'eof', 'partial', 'neghdr']
_CHAL_OK = ['ok', 'ok', 'len', 'const']
_CHAL_DEV = ['noprefix', 'noprefix', 'badprefix', 'shortprefix', 'empty',
             'welcome', 'failure', 'big257', 'eof', 'partial', 'neghdr']
_VER_OK = ['welcome']
_VER_DEV = ['failure', 'failure', 'empty', 'bit', 'trunc', 'ext', 'lower',
            'digest', 'challenge', 'pad256', 'big257', 'eof', 'partial',
            'neghdr']
_CHAL_LENS = [0, 1, 19, 21, 64, 100, 245]


def _hostile_msg(step, dev, ctx):
    """-> (mode, payload, conform) for what the hostile peer sends at `step`.
    mode: 'frame' | 'raw+close' | 'close'.  `conform` is decided by what is on
    the wire (a deviation that happens to produce the right bytes conforms)."""
    d, a = dev.get('d', 'ok'), int(dev.get('a', 0))
    key = ctx['key']
    seed_msg = hashlib.shake_256(b'c18/chal/%d' % ctx['seed'])
    if d == 'eof':
        return 'close', b'', False
    if d == 'neghdr':
        return 'raw', struct.pack('!i', -1 - a % 1000), False
    if step == 'dig':
        good = ref_hmac_md5(key, ctx['honest_challenge'] or b'')
        table = {
            'ok': good,
            'bit': _flip(good, a),
            'trunc': good[:1 + a % 15],
            'empty': b'',
            'ext': good + bytes([a % 256]) * (1 + a % 3),
            'pad256': good + b'\x00' * 240,
            'big257': good + b'\x00' * 241,
            'replay': ctx['prev_digest'] if ctx['prev_digest'] is not None
            else good,
            'welcome': WELCOME,
            'failure': FAILURE,
            'echo': (CHALLENGE if a % 2 else b'') +
            (ctx['honest_challenge'] or b''),
            'otherkey': ref_hmac_md5(_flip(key, a),
                                     ctx['honest_challenge'] or b''),
            'hex': good.hex().encode(),
            'md5plain': hashlib.md5(key + (ctx['honest_challenge'] or
                                           b'')).digest(),
            'zeros': b'\x00' * 16,
        }
    elif step == 'chal':
        good = CHALLENGE + seed_msg.digest(CHALLENGE_LEN)
        table = {
            'ok': good,
            'len': CHALLENGE + seed_msg.digest(_CHAL_LENS[a % 7]),
            'const': CHALLENGE + bytes([a % 256]) * CHALLENGE_LEN,
            'noprefix': seed_msg.digest(CHALLENGE_LEN),
            'badprefix': _flip(CHALLENGE, a) + seed_msg.digest(CHALLENGE_LEN),
            'shortprefix': CHALLENGE[:1 + a % 10],
            'empty': b'',
            'welcome': WELCOME,
            'failure': FAILURE,
            'big257': CHALLENGE + seed_msg.digest(257 - len(CHALLENGE)),
        }
    else:
        good = WELCOME
        table = {
            'welcome': WELCOME,
            'failure': FAILURE,
            'empty': b'',
            'bit': _flip(WELCOME, a),
            'trunc': WELCOME[:1 + a % 8],
            'ext': WELCOME + bytes([a % 256]),
            'lower': WELCOME.lower(),
            'digest': ctx['honest_digest'] or b'\x00' * 16,
            'challenge': CHALLENGE + seed_msg.digest(CHALLENGE_LEN),
            'pad256': WELCOME + b'\x00' * (256 - len(WELCOME)),
            'big257': WELCOME + b'\x00' * (257 - len(WELCOME)),
        }
    if d == 'partial':
        cut = good[:a % len(good)]
        return 'raw+close', struct.pack('!i', len(good)) + cut, False
    payload = table[d]
    if step == 'chal':
        conform = payload[:len(CHALLENGE)] == CHALLENGE and len(payload) <= 256
    else:
        conform = payload == good
    return 'frame', payload, conform


_SEEN_CHALLENGES = set()     # every challenge an honest side issued in this process


def _hostile_conn(m, role, via, key, devs, seed, prev_digest):
    """One connection against an honest side.  Returns (violation, info):
    violation is None or (signature, detail)."""
    base = _fds()
    tmp = tempfile.mkdtemp(prefix='c18-') if via != 'pipe' else None
    closers = []
    runner = peer = None
    viol = []
    info = {'challenge': None, 'frames': 0, 'first_dev': None}

    def note(sig, detail):
        viol.append((sig, detail))

    try:
        # ---- set the two sides up ----------------------------------------
        if via == 'pipe':
            a, b = m.Pipe()
            closers.append(a.close)
            psock = socket.socket(fileno=os.dup(b.fileno()))
            b.close()
            if role == 'server':
                def fn():
                    m.deliver(a, key)
                    m.answer(a, key)
            else:
                def fn():
                    m.answer(a, key)
                    m.deliver(a, key)
            runner = _Runner(m.AuthErr, fn)
            runner.start()
        else:
            fam = socket.AF_UNIX if via == 'unix' else socket.AF_INET
            address, family = _address(via, tmp)
            if role == 'server':
                listener = m.Listener(address, family, authkey=key)
                closers.append(listener.close)
                runner = _Runner(m.AuthErr, listener.accept)
                runner.start()
                psock = socket.socket(fam)
                closers.append(psock.close)
                psock.settimeout(HANG_S)
                psock.connect(listener.address)
            else:
                lsock = socket.socket(fam)
                closers.append(lsock.close)
                lsock.setsockopt(socket.SOL_SOCKET, socket.SO_REUSEADDR, 1)
                lsock.bind(address)
                lsock.listen(1)
                runner = _Runner(m.AuthErr, m.Client, lsock.getsockname(),
                                 None, key)
                runner.start()
                psock = _accept_or_done(lsock, runner,
                                        time.monotonic() + HANG_S)
                if psock is None:
                    raise RuntimeError('C18 harness: Client(%r) with a bytes '
                                       'key never connected' % (address,))
        peer = _Peer(psock)
        closers.append(peer.close)

        # ---- play ---------------------------------------------------------
        if role == 'server':
            steps = ['H:challenge', 'P:dig', 'H:verdict', 'P:chal',
                     'H:digest', 'P:ver']
        else:
            steps = ['P:chal', 'H:digest', 'P:ver', 'H:challenge', 'P:dig',
                     'H:verdict']
        ctx = {'key': key, 'seed': seed, 'prev_digest': prev_digest,
               'honest_challenge': None, 'honest_digest': None}
        sent = {}          # step -> (payload, conform)
        watch = _Watch(base, [runner])
        all_conform = True
        stop = None
        for step in steps:
            who, what = step.split(':')
            if who == 'H':
                kind, data = peer.recv_frame(runner, watch)
                if kind != 'frame':
                    stop = kind
                    break
                info['frames'] += 1
                if what == 'challenge':
                    if data[:len(CHALLENGE)] != CHALLENGE or \
                            len(data) != len(CHALLENGE) + CHALLENGE_LEN:
                        note('C18/bad-challenge-frame',
                             'honest %s sent %r as its challenge' % (role, data))
                    ch = data[len(CHALLENGE):]
                    ctx['honest_challenge'] = ch
                    info['challenge'] = ch
                    if ch in _SEEN_CHALLENGES:
                        note('C18/challenge-repeated',
                             'challenge %r was already used by an earlier '
                             'connection' % ch)
                    _SEEN_CHALLENGES.add(ch)
                elif what == 'verdict':
                    _, dig_ok = sent['dig']
                    if data == WELCOME and not dig_ok:
                        note('C18/welcome-for-wrong-digest',
                             'honest %s welcomed digest %r (correct: %r)' % (
                                 role, sent['dig'][0][:40],
                                 ref_hmac_md5(key, ctx['honest_challenge']
                                              or b'')))
                    elif dig_ok and all_conform and data != WELCOME:
                        note('C18/correct-digest-refused',
                             'honest %s answered %r to the correct digest'
                             % (role, data[:40]))
                    elif not dig_ok and data != FAILURE:
                        note('C18/bad-verdict-frame',
                             'honest %s answered %r to a wrong digest'
                             % (role, data[:40]))
                else:
                    ctx['honest_digest'] = data
                    payload, conform = sent['chal']
                    if conform and all_conform and \
                            data != ref_hmac_md5(key, payload[len(CHALLENGE):]):
                        note('C18/wrong-digest-sent',
                             'honest %s answered challenge %r with %r, '
                             'reference %r' % (
                                 role, payload[:48], data[:40],
                                 ref_hmac_md5(key, payload[len(CHALLENGE):])))
            else:
                mode, payload, conform = _hostile_msg(what, devs[what], ctx)
                sent[what] = (payload, conform)
                if not conform:
                    if all_conform:
                        wellformed = mode == 'frame' and len(payload) <= 256
                        info['first_dev'] = (what, devs[what].get('d'),
                                             wellformed)
                    all_conform = False
                if mode == 'close':
                    peer.half_close()
                    stop = 'closed'
                    break
                alive = peer.send_frame(payload) if mode == 'frame' \
                    else peer.send_raw(payload)
                if mode == 'raw+close':
                    peer.half_close()
                    stop = 'closed'
                    break
                if not alive:
                    stop = 'epipe'
                    break
        # whatever else the honest side says before it finishes
        while stop not in ('eof', 'hung', 'slow', 'garbage'):
            kind, data = peer.recv_frame(runner, watch)
            if kind != 'frame':
                if kind != 'idle':
                    stop = kind
                break
            info['frames'] += 1
            if data == WELCOME and 'dig' in sent and not sent['dig'][1]:
                note('C18/welcome-for-wrong-digest',
                     'honest %s welcomed digest %r' % (role, sent['dig'][0][:40]))
        # ---- finish the honest side -----------------------------------------
        hang = stop if stop in ('hung', 'slow') else _wait([runner], watch)
        if hang:
            # every scripted message is out and it still waits: cut the line
            runner.was_blocked = True
            peer.close()
            _cut([runner], base)
        res = runner.out
        if res is not None and res[0] == 'ok' and res[1] is not None:
            closers.append(res[1].close)
        dev = info['first_dev']
        story = 'honest %s over %s, key %d bytes, peer sent %s; honest side %s' \
            % (role, via, len(key),
               ', '.join('%s=%s' % (k, devs[k].get('d')) for k in
                         ('dig', 'chal', 'ver')), runner.describe())
        if hang == 'slow':
            info['inconclusive'] = story
        elif hang:
            note('C18/handshake-hung', story)
        elif dev is None:
            if res[0] != 'ok':
                note('C18/conforming-peer-refused', story)
            elif info['frames'] != 3:
                note('C18/not-mutual', '%s - it sent %d of the 3 handshake '
                     'messages' % (story, info['frames']))
        else:
            if res[0] == 'ok':
                note('C18/deviation-accepted', story)
            elif dev[0] in ('dig', 'ver') and dev[2] and not res[2]:
                note('C18/deviation-wrong-error', story)
        info['story'] = story
    finally:
        stuck = False
        if runner is not None:
            if runner.is_alive():
                try:
                    _cut([runner], base)
                except RuntimeError:
                    stuck = True
            runner.out = None
            runner.dispose()
        for c in reversed(closers):
            try:
                c()
            except OSError:
                pass
        if tmp:
            shutil.rmtree(tmp, ignore_errors=True)
        if stuck:
            raise RuntimeError('C18 harness: honest thread could not be '
                               'unblocked')
    return (viol[0] if viol else None), info


_CONFORM = {'dig': {'d': 'ok'}, 'chal': {'d': 'ok'}, 'ver': {'d': 'welcome'}}


def execute_hostile(case):
    key = _key(case['key'])
    if not key:
        return ok(False, ['invalid-empty-key'])
    m = _Mods()
    base, threads0 = _fds(), threading.active_count()
    role, via = case['role'], case['via']
    devs = {k: case[k] for k in ('dig', 'chal', 'ver')}
    labels = ['role=' + role, 'via=' + via]
    prev_digest = None
    if devs['dig'].get('d') == 'replay':
        # an earlier, fully conforming connection whose digest is replayed
        v, info = _hostile_conn(m, role, via, key, _CONFORM,
                                case['seed'] + 1, None)
        if v:
            return bad(v[0], 'in the connection before the replay: ' + v[1])
        if info.get('inconclusive'):
            return inconclusive(info['inconclusive'])
        prev_digest = ref_hmac_md5(key, info['challenge'])
    v, info = _hostile_conn(m, role, via, key, devs, case['seed'], prev_digest)
    if v:
        return bad(v[0], v[1])
    if info.get('inconclusive'):
        return inconclusive(info['inconclusive'])
    dev = info['first_dev']
    if dev is None:
        labels.append('all-conform')
    else:
        labels.append('dev:%s=%s' % (dev[0], dev[1]))
        labels.append('dev-at-' + dev[0])
    n_dev = sum(1 for k, okname in (('dig', _DIG_OK), ('chal', _CHAL_OK),
                                    ('ver', _VER_OK))
                if devs[k].get('d') not in okname)
    if n_dev > 1:
        labels.append('several-devs')
    if len(key) > 64:
        labels.append('len>64')
    return ok(dev is not None, labels + _leak_labels(base, threads0))


@st.composite
def hostile_cases(draw):
    mask = draw(st.sampled_from(
        [(0, 0, 0)] * 2 +
        [(1, 0, 0), (0, 1, 0), (0, 0, 1)] * 5 +
        [(1, 1, 0), (1, 0, 1), (0, 1, 1), (1, 1, 1)]))
    arg = st.integers(0, 1023)

    def pick(flag, good, devs):
        return {'d': draw(st.sampled_from(devs if flag else good)),
                'a': draw(arg)}
    return {
        'role': draw(st.sampled_from(['server', 'client'])),
        'via': draw(st.sampled_from(['pipe'] * 8 + ['unix', 'inet'])),
        'key': draw(_KEYSPEC),
        'seed': draw(st.integers(0, 2 ** 32 - 1)),
        'dig': pick(mask[0], _DIG_OK, _DIG_DEV),
        'chal': pick(mask[1], _CHAL_OK, _CHAL_DEV),
        'ver': pick(mask[2], _VER_OK, _VER_DEV),
    }


# ---------------------------------------------------------------------------
# part fresh
# ---------------------------------------------------------------------------

def fresh_cases():
    return st.fixed_dictionaries({
        'role': st.sampled_from(['server', 'client']),
        'via': st.sampled_from(['pipe'] * 6 + ['unix', 'inet']),
        'key': _KEYSPEC,
        'seed': st.integers(0, 2 ** 32 - 1),
        'n': st.integers(2, 48),
    })


def execute_fresh(case):
    key = _key(case['key'])
    if not key:
        return ok(False, ['invalid-empty-key'])
    m = _Mods()
    base, threads0 = _fds(), threading.active_count()
    n = max(2, min(int(case['n']), 64))
    if case['via'] != 'pipe':
        n = min(n, 8)
    seen = set()
    for i in range(n):
        v, info = _hostile_conn(m, case['role'], case['via'], key, _CONFORM,
                                case['seed'] + i, None)
        if v:
            return bad(v[0], 'connection %d of %d: %s' % (i + 1, n, v[1]))
        if info.get('inconclusive'):
            return inconclusive(info['inconclusive'])
        if info['challenge'] in seen:      # also caught by the run-wide set
            return bad('C18/challenge-repeated', 'connection %d of %d reused '
                       'challenge %r' % (i + 1, n, info['challenge']))
        seen.add(info['challenge'])
    return ok(False, ['role=' + case['role'], 'via=' + case['via'],
                      'connections<%d' % ((n // 8 + 1) * 8)] +
              _leak_labels(base, threads0))


# ---------------------------------------------------------------------------
# part types
# ---------------------------------------------------------------------------

def _badkey(name):
    return {
        'str': lambda: 'secret', 'str-empty': lambda: '',
        'bytearray': lambda: bytearray(b'secret'),
        'bytearray-empty': lambda: bytearray(),
        'memoryview': lambda: memoryview(b'secret'),
        'int': lambda: 12345, 'int-zero': lambda: 0,
        'float': lambda: 1.5, 'true': lambda: True, 'false': lambda: False,
        'list': lambda: [115, 101], 'list-empty': lambda: [],
        'tuple': lambda: (b'secret',), 'tuple-empty': lambda: (),
    }[name]()


_BADKEYS = ['str', 'str-empty', 'bytearray', 'bytearray-empty', 'memoryview',
            'int', 'int-zero', 'float', 'true', 'false', 'list', 'list-empty',
            'tuple', 'tuple-empty']


def type_cases():
    return [{'api': api, 'family': fam, 'key': k}
            for api in ('listener', 'client') for fam in ('unix', 'inet')
            for k in _BADKEYS]


def execute_types(case):
    m = _Mods()
    base, threads0 = _fds(), threading.active_count()
    tmp = tempfile.mkdtemp(prefix='c18-')
    key = _badkey(case['key'])
    out = None
    what = '%s(..., authkey=%s) over %s' % (
        case['api'].capitalize(), case['key'], case['family'])
    try:
        address, family = _address(case['family'], tmp)
        if case['api'] == 'listener':
            try:
                lst = m.Listener(address, family, authkey=key)
            except TypeError:
                pass
            except Exception as exc:
                out = bad('C18/nonbytes-key-not-typeerror', '%s raised %s' % (
                    what, type(exc).__name__))
            else:
                lst.close()
                out = bad('C18/nonbytes-key-accepted', what + ' returned a '
                          'listener')
        else:
            fam = socket.AF_UNIX if case['family'] == 'unix' else socket.AF_INET
            lsock = socket.socket(fam)
            acc = runner = None
            try:
                lsock.setsockopt(socket.SOL_SOCKET, socket.SO_REUSEADDR, 1)
                lsock.bind(address)
                lsock.listen(1)
                runner = _Runner(m.AuthErr, m.Client, lsock.getsockname(),
                                 None, key)
                runner.start()
                # a Client that rejects the key before connecting is fine too
                acc = _accept_or_done(lsock, runner, time.monotonic() + HANG_S)
                blocked = _wait([runner], _Watch(base, [runner]))
                if blocked:
                    if acc is not None:
                        acc.close()    # EOF for a client that waits for a challenge
                    _cut([runner], base)
                res = runner.out
                if blocked == 'slow':
                    out = inconclusive(what + ' neither raised nor settled')
                elif blocked:
                    out = bad('C18/nonbytes-key-used', what + ' started a '
                              'handshake instead of raising')
                elif res[0] == 'ok':
                    res[1].close()
                    out = bad('C18/nonbytes-key-accepted', what + ' returned '
                              'a connection')
                elif res[1] != 'TypeError':
                    out = bad('C18/nonbytes-key-not-typeerror', '%s raised %s'
                              % (what, res[1]))
            finally:
                if runner is not None:
                    if runner.is_alive():
                        _cut([runner], base)
                    runner.out = None
                    runner.dispose()
                if acc is not None:
                    acc.close()
                lsock.close()
    finally:
        key = None
        shutil.rmtree(tmp, ignore_errors=True)
    if out is not None:
        return out
    gc.collect()    # a refused Listener drops its bound socket only when collected
    return ok(False, ['api=' + case['api'], 'key=' + case['key']] +
              _leak_labels(base, threads0))


# ---------------------------------------------------------------------------

PARTS = {'pipe': execute_pipe, 'sock': execute_sock,
         'hostile': execute_hostile, 'fresh': execute_fresh,
         'types': execute_types}


def _simpler_pairs(case):
    """extra shrinking candidates for pipe/sock cases"""
    if case.get('swap'):
        yield dict(case, swap=False)
    if case.get('key') != {'b': [97]}:
        yield dict(case, key={'b': [97]})
    rel = case.get('rel', {})
    if rel.get('a'):
        yield dict(case, rel=dict(rel, a=0))
    for w in ('w1', 'w2'):
        if case.get(w):
            yield dict(case, **{w: False})


def _simpler_hostile(case):
    if case.get('via') != 'pipe':
        yield dict(case, via='pipe')
    if case.get('key') != {'b': [97]}:
        yield dict(case, key={'b': [97]})
    for step, good in (('dig', 'ok'), ('chal', 'ok'), ('ver', 'welcome')):
        if case[step].get('d') != good:
            yield dict(case, **{step: {'d': good, 'a': 0}})
        elif case[step].get('a'):
            yield dict(case, **{step: dict(case[step], a=0)})


def run(ctx):
    def counted(execute):
        def wrapped(case):
            if case.get('fix'):
                ctx.excluded('hmac-equivalent-unequal-keys')
            return execute(case)
        return wrapped

    ctx.enumerate('types', type_cases(), execute_types)
    if ctx.violations:
        return
    ctx.explore('hostile', hostile_cases(), execute_hostile,
                n=ctx.pick(500, 20000), shrink_budget=40,
                extra_candidates=_simpler_hostile)
    if ctx.violations:
        return
    ctx.explore('fresh', fresh_cases(), execute_fresh,
                n=ctx.pick(12, 500), shrink_budget=20)
    if ctx.violations:
        return
    ctx.explore('pipe', pipe_cases(), counted(execute_pipe),
                n=ctx.pick(625, 20000), shrink_budget=40,
                extra_candidates=_simpler_pairs)
    if ctx.violations:
        return
    ctx.explore('sock', sock_cases(), counted(execute_sock),
                n=ctx.pick(30, 1500), shrink_budget=20,
                extra_candidates=_simpler_pairs)
