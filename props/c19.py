"""C19 - process exit status and liveness are reported faithfully.

One case = a start method, 1-3 children (each with its own exit path) and a
script of parent-side steps.  Every child reports "ready" and then blocks on a
pipe until the parent releases it (or kills it, for the external-kill paths),
so the parent can poll, join with a timeout, list active children and try a
second start() while the child is certainly alive, in the window around the
exit, and after it.  What the child really is doing is read from
/proc/<pid>/stat (identity = start time), independent of billiard.

Parts: fork / spawn / forkserver (same generator, the method is fixed per part).
"""
import glob
import os
import signal
import threading
import time

from hypothesis import strategies as st

from vlib.core import HarnessError, bad, format_exc, inconclusive, ok

from engines import targets_c19 as T

LEVEL = 'exploration'
RULE = ('part enum: one fixed one-child scenario per (start method, fatal '
        'signal 1-64 without the 10 non-fatal/reserved ones) and per '
        '(start method, sys.exit code) - quick: fork x 54 signals + 9 edge '
        'codes; thorough: 3 methods x 54 signals, fork x all 256 codes, 9 edge '
        'codes for spawn/forkserver; exhaustive when not cut.  parts fork/'
        'spawn/forkserver: Hypothesis cases {method, default_ctx, children[1-3] of {exit path in '
        'return | raise X | sys.exit(0..255) | self-kill by any signal whose '
        'default action terminates (SIG_DFL first, cores off) | external '
        'SIGKILL / terminate(); exit delay; try-start-a-foreign-process flag}, '
        'pre[0-4] of non-releasing steps, script[0-10] of join(k, 0|0.05|0.5|'
        'None) / exitcode / is_alive / '
        'active_children / sleep / start-again / release / await-end (wait by '
        '/proc until the child is gone, so the next poll is after the exit '
        'and before any join) / spin (poll back-to-back across the exit)}; '
        'at the end every child is released, polled after its end (finale) '
        'and joined.  part fork runs every case with '
        'fork; spawn and forkserver run a few (quick) or as many (thorough). '
        'A case is non-trivial when some child leaves by a non-return path or '
        'a timed join expired with the child still running.  Distinct = '
        'distinct canonical JSON of the case.')
ASSUMPTIONS = [
    'ground truth for "the child has ended" is /proc/<pid>/stat (state Z/X, '
    'entry gone, or another start time) for direct children; for forkserver '
    'children only "blocked on our pipe" (running) and "/proc entry gone" '
    '(ended) are used, the window in between is not asserted on',
    'a join is counted as successful only when it was join(None) or the '
    'child had provably ended before the call',
    'join(t) must return within t + 3 s (observed overrun on this 16-core '
    'box: <5 ms normally, <50 ms at load 8, <0.5 s at load 40, and 11 of '
    '~1400 joins between 0.5 s and 3 s at load 80; a failing case must '
    'reproduce 3/3)',
    'quick/thorough parts carry a wall cap per shard (enum 15 s + 30/12/12 s, '
    'enum 240 s + 330/165/165 s) that only bites on a badly oversubscribed '
    'box; a cut part is flagged budget_cut',
    'forkserver / semaphore-tracker helper processes are shut down after '
    'every case by closing forkserver._forkserver._forkserver_alive_fd and '
    'semaphore_tracker._semaphore_tracker._fd and reaped by the harness; one '
    'that has not gone 10 s later (seen only at load > 50, while it was '
    'still starting up) is SIGKILLed and labelled helper_had_to_be_killed',
    'sys.exit() without an integer argument and os._exit are outside the '
    'statement and not generated',
]
SHARDS = {'quick': 8, 'thorough': 16}
WALL_LIMIT = {'quick': 600, 'thorough': 3600}

SLACK = 3.0        # join(t) has to be back within t + SLACK
GUARD = 3.5        # ... a join(t) still blocked at t + GUARD gets its child killed
HANG_KILL = 20.0   # join(None): child killed after this long -> inconclusive
READY_WAIT = 30.0

# default action "terminate" (with or without core) on Linux; 32/33 belong to
# the threading library and cannot be reset from Python
_NONFATAL = {17, 18, 19, 20, 21, 22, 23, 28, 32, 33}
FATAL = [s for s in range(1, 65) if s not in _NONFATAL]
_CORE = {3, 4, 5, 6, 7, 8, 11, 24, 25, 31}

# ---------------------------------------------------------------------------
# generator
# ---------------------------------------------------------------------------

# (the first alternative is what Hypothesis tries first in every shard, so it
# is a signal death rather than the trivial "return")
_EXIT = st.one_of(
    st.sampled_from(FATAL).map(lambda s: ['sig', s]),
    st.sampled_from(FATAL).map(lambda s: ['sig', s]),
    st.sampled_from([1, 2, 3, 6, 9, 11, 13, 14, 15]).map(lambda s: ['sig', s]),
    st.just(['return', 0]),
    st.sampled_from(sorted(T._RAISABLE)).map(lambda n: ['raise', n]),
    st.sampled_from([0, 1, 2, 3, 42, 126, 127, 128, 129, 137, 254, 255]).map(
        lambda n: ['exit', n]),
    st.integers(0, 255).map(lambda n: ['exit', n]),
    st.sampled_from([['ext', 9], ['ext', 15]]),
)
_CHILD = st.fixed_dictionaries({
    'exit': _EXIT,
    'delay_ms': st.sampled_from([0, 0, 0, 2, 10, 40, 120]),
    'foreign': st.sampled_from([False, False, False, True]),
})
_IDX = st.integers(0, 5)
_STEP = st.one_of(
    st.tuples(st.just('join'), _IDX,
              st.sampled_from([0, 0, 0.05, 0.05, 0.05, 0.5, None, None])),
    st.tuples(st.just('poll'), _IDX),
    st.tuples(st.just('poll'), _IDX),
    st.tuples(st.just('alive'), _IDX),
    st.tuples(st.just('active'), st.just(0)),
    st.tuples(st.just('sleep'), st.sampled_from([0, 1, 3, 10, 30])),
    st.tuples(st.just('start2'), _IDX),
    st.tuples(st.just('release'), _IDX),
    st.tuples(st.just('release'), _IDX),
    st.tuples(st.just('await'), _IDX),
    st.tuples(st.just('spin'), _IDX),
).map(list)


# steps that release nobody: what 'pre' is made of, so that polls and timed
# joins on a child that is certainly alive are in (almost) every case
_PRE_STEP = st.one_of(
    st.tuples(st.just('join'), _IDX, st.sampled_from([0, 0.05, 0.05, 0.5])),
    st.tuples(st.just('poll'), _IDX),
    st.tuples(st.just('alive'), _IDX),
    st.tuples(st.just('active'), st.just(0)),
    st.tuples(st.just('start2'), _IDX),
).map(list)


def cases(method):
    return st.fixed_dictionaries({
        'method': st.just(method),
        'default_ctx': st.booleans(),
        'children': st.lists(_CHILD, min_size=1, max_size=3),
        'pre': st.lists(_PRE_STEP, min_size=0, max_size=4),
        'script': st.lists(_STEP, min_size=0, max_size=10),
        'finale': st.sampled_from(['poll', 'join', 'join', 'alive']),
    })


# ---------------------------------------------------------------------------
# ground truth and process bookkeeping (independent of billiard)
# ---------------------------------------------------------------------------

def _stat(pid):
    """(state, ppid, starttime) of a pid or None"""
    try:
        with open('/proc/%d/stat' % pid) as f:
            s = f.read()
    except (FileNotFoundError, ProcessLookupError):
        return None
    rest = s[s.rindex(')') + 2:].split()
    return rest[0], int(rest[1]), rest[19]


def _my_children():
    out = []
    for path in glob.glob('/proc/self/task/*/children'):
        try:
            with open(path) as f:
                out.extend(int(x) for x in f.read().split())
        except (FileNotFoundError, ProcessLookupError):
            pass
    return out


def _reap(pid, wait_s):
    """wait for a direct child to end (True) - never blocks beyond wait_s"""
    deadline = time.monotonic() + wait_s
    while True:
        try:
            got, _ = os.waitpid(pid, os.WNOHANG)
        except ChildProcessError:
            return True
        if got == pid:
            return True
        if time.monotonic() >= deadline:
            return False
        time.sleep(0.005)


def _kill(pid):
    try:
        os.kill(pid, signal.SIGKILL)
    except ProcessLookupError:
        pass


class _Kid:
    def __init__(self, spec, method):
        self.exit = spec['exit']
        self.method = method
        self.p = None
        self.pid = None
        self.ident = None          # start time of the pid that is our child
        self.all_pids = []
        self.rel_w = None
        self.rep_r = None
        self.released = False
        self.code_seen = None
        self.joined = False

    def gt(self):
        """'running' | 'ended' | 'unknown' from /proc alone"""
        st_ = _stat(self.pid)
        if st_ is None or st_[2] != self.ident:
            return 'ended'
        if self.method == 'forkserver':
            # the exit code is written to the status pipe before the process
            # is gone, so "still in /proc" proves nothing once released
            return 'running' if not self.released else 'unknown'
        return 'ended' if st_[0] in 'ZX' else 'running'

    def code_ok(self, code):
        kind, arg = self.exit
        if type(code) is not int:
            return False
        if kind == 'return':
            return code == 0
        if kind == 'raise':
            return code == 1
        if kind == 'exit':
            return code == arg
        if self.method == 'forkserver':
            return code != 0
        return code == -arg


class _Fail(Exception):
    def __init__(self, outcome):
        self.outcome = outcome


def _fail(sig, detail):
    raise _Fail(bad(sig, detail))


# ---------------------------------------------------------------------------
# one case
# ---------------------------------------------------------------------------

def _shutdown_helpers():
    """Make billiard's forkserver and semaphore tracker exit (they do so when
    the last writer of their pipe is closed) and forget them."""
    import sys
    fs_mod = sys.modules.get('billiard.forkserver')
    if fs_mod is not None:
        fs = fs_mod._forkserver
        if fs._forkserver_alive_fd is not None:
            try:
                os.close(fs._forkserver_alive_fd)
            except OSError:
                pass
            fs._forkserver_alive_fd = None
            addr, fs._forkserver_address = fs._forkserver_address, None
            if isinstance(addr, str):
                try:
                    os.unlink(addr)
                except OSError:
                    pass
    st_mod = sys.modules.get('billiard.semaphore_tracker')
    if st_mod is not None:
        tr = st_mod._semaphore_tracker
        if tr._fd is not None:
            try:
                os.close(tr._fd)
            except OSError:
                pass
            tr._fd = None
    # the temp dir the listener socket lived in (multiprocessing.util owns it)
    from multiprocessing import util as mpu
    rm = getattr(mpu, '_remove_temp_dir', None)
    for key, fin in list(mpu._finalizer_registry.items()):
        if rm is not None and getattr(fin, '_callback', None) is rm:
            fin()


def _cleanup(kids, conns, timers, env_before, labels):
    for t in timers:
        t.cancel()
    for t in timers:
        t.join()
    me = os.getpid()
    for kid in kids:
        for pid in kid.all_pids:
            st_ = _stat(pid)
            if st_ is None:
                continue
            # still running here = the case failed or was cut short
            if st_[1] == me or (pid == kid.pid and st_[2] == kid.ident):
                if st_[0] not in 'ZX':
                    _kill(pid)
                if st_[1] == me:
                    _reap(pid, 10)
    for c in conns:
        try:
            c.close()
        except OSError:
            pass
    _shutdown_helpers()
    for pid in _my_children():
        if not _reap(pid, 10):
            labels.add('helper_had_to_be_killed')
            _kill(pid)
            _reap(pid, 10)
    if env_before is None:
        os.environ.pop('MULTIPROCESSING_FORKING_DISABLE', None)
    else:
        os.environ['MULTIPROCESSING_FORKING_DISABLE'] = env_before
    left = _my_children()
    if left:
        raise HarnessError('C19 case left child processes behind: %r' % (left,))


_ARITY = {'join': 3, 'poll': 2, 'alive': 2, 'active': 2, 'sleep': 2,
          'start2': 2, 'release': 2, 'await': 2, 'spin': 2}


def _well_formed(case):
    """ddmin drops elements of every list, also inside a step or an exit
    path; such cases are not in the domain"""
    if not case['children']:
        return False
    for ch in case['children']:
        ex = ch['exit']
        if len(ex) != 2 or ex[0] not in ('return', 'raise', 'exit', 'sig',
                                         'ext'):
            return False
        if ex[0] == 'raise' and ex[1] not in T._RAISABLE:
            return False
        if ex[0] in ('exit', 'sig', 'ext') and type(ex[1]) is not int:
            return False
    for step in case.get('pre', []) + case['script']:
        if not step or _ARITY.get(step[0]) != len(step):
            return False
        if type(step[1]) is not int:
            return False
    return True


def execute(case):
    import billiard
    from billiard.connection import Pipe

    method = case['method']
    if not _well_formed(case):        # only the shrinker produces these
        return ok(False, ['malformed'])
    stray = _my_children()
    if stray:
        raise HarnessError('children alive before the case: %r' % (stray,))
    env_before = os.environ.get('MULTIPROCESSING_FORKING_DISABLE')
    ctx = billiard.get_context(method)
    if method == 'fork' and case.get('default_ctx'):
        Proc, active = billiard.Process, billiard.active_children
    else:
        Proc, active = ctx.Process, ctx.active_children

    labels = set()
    kids, conns, timers = [], [], []
    flags = {'expired': False}
    try:
        try:
            _run(case, method, Proc, active, Pipe, kids, conns, timers,
                 labels, flags)
        except _Fail as f:
            return f.outcome
    finally:
        _cleanup(kids, conns, timers, env_before, labels)
    nontrivial = flags['expired'] or any(
        k.exit[0] != 'return' for k in kids)
    return ok(nontrivial, sorted(labels))


def _run(case, method, Proc, active, Pipe, kids, conns, timers, labels, flags):
    labels.add('children=%d' % len(case['children']))
    # ---- start every child, wait until it reports ready ------------------
    for spec in case['children']:
        kid = _Kid(spec, method)
        kids.append(kid)
        rel_r, rel_w = Pipe(duplex=False)
        rep_r, rep_w = Pipe(duplex=False)
        conns.extend([rel_r, rel_w, rep_r, rep_w])
        kid.rel_w, kid.rep_r = rel_w, rep_r
        foreign = Proc(target=T.grandchild_noop) if spec['foreign'] else None
        kid.p = Proc(target=T.child_main,
                     args=({'exit': list(spec['exit']),
                            'delay_ms': spec['delay_ms']},
                           rel_r, rep_w, foreign))
        kid.p.start()
        kid.pid = kid.p.pid
        kid.all_pids.append(kid.pid)
        st_ = _stat(kid.pid)
        kid.ident = st_[2] if st_ else None
        rel_r.close()
        rep_w.close()
    for i, (kid, spec) in enumerate(zip(kids, case['children'])):
        if not kid.rep_r.poll(READY_WAIT):
            raise _Fail(inconclusive('child %d not ready in %gs'
                                     % (i, READY_WAIT)))
        try:
            msg = kid.rep_r.recv_bytes()
        except EOFError:
            _fail('C19/child-died-early', 'child %d (%s) ended before it '
                  'reached its target' % (i, method))
        if spec['foreign']:
            labels.add('foreign_start')
            if msg[1:2] == b'S':
                _fail('C19/foreign-start', 'child %d started a process object '
                      'created by its parent' % i)
            if msg[1:2] != b'A':
                _fail('C19/foreign-start-error', 'start() of a foreign process'
                      ' object raised %s instead of AssertionError'
                      % msg[2:].decode())

    # ---- helpers ---------------------------------------------------------
    def phase(kid):
        return 'post' if kid.released else 'pre'

    def check_code(kid, code, where):
        if not kid.code_ok(code):
            _fail('C19/exitcode-wrong', '%s: exit path %r under %s reported '
                  'exitcode %r' % (where, kid.exit, method, code))
        if kid.code_seen is not None and kid.code_seen != code:
            _fail('C19/exitcode-changed', '%s: exitcode was %r, now %r'
                  % (where, kid.code_seen, code))
        kid.code_seen = code

    def observe(i, what):
        kid = kids[i]
        g0 = kid.gt()
        val = kid.p.exitcode if what == 'poll' else kid.p.is_alive()
        g1 = kid.gt()
        says_ended = (val is not None) if what == 'poll' else (val is False)
        where = 'child %d %s (%s-release, /proc says %s then %s)' % (
            i, 'exitcode' if what == 'poll' else 'is_alive()', phase(kid),
            g0, g1)
        if says_ended and g1 == 'running':
            _fail('C19/ended-while-running', '%s returned %r' % (where, val))
        if not says_ended and g0 == 'ended':
            _fail('C19/alive-after-end', '%s returned %r' % (where, val))
        if not says_ended and kid.code_seen is not None:
            _fail('C19/alive-after-exitcode', '%s returned %r after exitcode '
                  '%r had been reported' % (where, val, kid.code_seen))
        if not says_ended and kid.joined:
            _fail('C19/alive-after-join', '%s returned %r after a successful '
                  'join' % (where, val))
        if says_ended:
            code = val if what == 'poll' else kid.p.exitcode
            if code is None:
                _fail('C19/dead-without-exitcode', '%s False but exitcode is '
                      'None' % where)
            check_code(kid, code, where)
        cls = ('ended' if g0 == 'ended' else
               'running' if g1 == 'running' else 'window')
        labels.add('obs:%s:%s' % (phase(kid), cls))
        if cls == 'window':
            labels.add('obs:window:%s' % ('saw_end' if says_ended
                                          else 'saw_alive'))

    def check_active():
        g0 = [k.gt() for k in kids]
        lst = active()
        g1 = [k.gt() for k in kids]
        for i, kid in enumerate(kids):
            listed = any(x is kid.p for x in lst)
            if g1[i] == 'running' and not listed:
                _fail('C19/active-missing', 'running child %d not in '
                      'active_children() %r' % (i, lst))
            if kid.joined and listed:
                _fail('C19/active-after-join', 'child %d still in '
                      'active_children() after a successful join' % i)
            if listed:
                labels.add('active:listed')
            elif g0[i] == 'ended':
                labels.add('active:gone')

    def release(i):
        kid = kids[i]
        if kid.released:
            return
        kind, arg = kid.exit
        kid.released = True      # before the act: /proc is no proof from here
        if kind == 'ext':
            if arg == signal.SIGTERM:
                kid.p.terminate()
            else:
                os.kill(kid.pid, arg)
        else:
            kid.rel_w.send_bytes(b'go')

    def join(i, t):
        kid = kids[i]
        if t is None:
            release(i)
        fired = []
        timer = None
        if t is None or not kid.released:
            def rescue():
                st_ = _stat(kid.pid)
                if st_ is not None and st_[2] == kid.ident:
                    fired.append(1)
                    _kill(kid.pid)
            timer = threading.Timer(HANG_KILL if t is None else t + GUARD,
                                    rescue)
            timer.daemon = True
            timers.append(timer)
            timer.start()
        g0 = kid.gt()
        t0 = time.monotonic()
        kid.p.join(t)
        dt = time.monotonic() - t0
        g1 = kid.gt()
        if timer is not None:
            timer.cancel()
        if t is not None:
            over = dt - t
            if over > SLACK:
                _fail('C19/join-overrun', 'child %d join(%r) took %.2fs '
                      '(%s-release%s)' % (i, t, dt, phase(kid),
                                          ', child had to be killed to get '
                                          'it back' if fired else ''))
            labels.add('join_over:%s' % ('<5ms' if over < .005 else
                                         '<50ms' if over < .05 else
                                         '<500ms' if over < .5 else '>=500ms'))
            if g1 == 'running' and dt >= t:
                flags['expired'] = True
                labels.add('join_expired:%s:t=%g' % (phase(kid), t))
            elif g0 == 'ended':
                labels.add('join_after_end')
            else:
                labels.add('join_timed_caught_exit')
        else:
            if fired:
                raise _Fail(inconclusive('child %d still running %gs after '
                                         'its release' % (i, HANG_KILL)))
            labels.add('join_none_blocked' if g0 != 'ended'
                       else 'join_none_after_end')
        if t is None or g0 == 'ended':
            kid.joined = True
            code = kid.p.exitcode
            if code is None:
                _fail('C19/joined-without-exitcode', 'child %d: join(%r) on a '
                      'child that had ended (/proc: %s) left exitcode None'
                      % (i, t, g0))
            check_code(kid, code, 'child %d after join(%r)' % (i, t))
            if kid.p.is_alive():
                _fail('C19/alive-after-join', 'child %d is_alive() after a '
                      'successful join(%r)' % (i, t))
        else:
            observe(i, 'poll')

    def await_end(i):
        """release child i and wait (by /proc alone) until it has ended, so
        that the next poll lands after the exit but before any join"""
        kid = kids[i]
        release(i)
        deadline = time.monotonic() + HANG_KILL
        while kid.gt() != 'ended':
            if time.monotonic() > deadline:
                raise _Fail(inconclusive('child %d still running %gs after '
                                         'its release' % (i, HANG_KILL)))
            time.sleep(0.001)
        labels.add('await_end' + (':unjoined' if not kid.joined else ''))

    def spin(i):
        """release child i and poll it back-to-back across its exit"""
        kid = kids[i]
        release(i)
        deadline = time.monotonic() + 3.0
        k = 0
        while kid.code_seen is None and time.monotonic() < deadline:
            observe(i, 'alive' if k % 4 == 3 else 'poll')
            k += 1
        labels.add('spin')

    def start_again(i):
        kid = kids[i]
        before = set(_my_children())
        try:
            kid.p.start()
        except AssertionError:
            labels.add('start2:%s' % ('joined' if kid.joined else phase(kid)))
            extra = set(_my_children()) - before
            if extra:
                kid.all_pids.extend(extra)
                _fail('C19/start-twice', 'second start() raised but left new '
                      'child processes %r' % sorted(extra))
            return
        except Exception as exc:
            kid.all_pids.extend(set(_my_children()) - before)
            _fail('C19/start-twice-error', 'second start() raised %s instead '
                  'of AssertionError' % type(exc).__name__)
        if kid.p.pid not in kid.all_pids:
            kid.all_pids.append(kid.p.pid)
        _fail('C19/start-twice', 'second start() of child %d (%s) did not '
              'raise' % (i, 'joined' if kid.joined else phase(kid)))

    # ---- the script --------------------------------------------------------
    n = len(kids)
    for step in case.get('pre', []) + case['script']:
        op = step[0]
        if op == 'join':
            join(step[1] % n, step[2])
        elif op in ('poll', 'alive'):
            observe(step[1] % n, op)
        elif op == 'active':
            check_active()
        elif op == 'sleep':
            time.sleep(step[1] / 1000.0)
        elif op == 'start2':
            start_again(step[1] % n)
        elif op == 'release':
            release(step[1] % n)
        elif op == 'await':
            await_end(step[1] % n)
        elif op == 'spin':
            spin(step[1] % n)
        else:
            raise HarnessError('unknown step %r' % (step,))

    # ---- wind down: everybody is released, joined, and checked -------------
    finale = case.get('finale', 'join')
    for i in range(n):
        if finale != 'join' and not kids[i].joined:
            await_end(i)
            observe(i, finale)
        join(i, None)
    for i, kid in enumerate(kids):
        observe(i, 'poll')
        observe(i, 'alive')
        join(i, 0.05)
        kind = kid.exit[0]
        labels.add('exit=%s' % kind)
        if kind in ('sig', 'ext'):
            s = kid.exit[1]
            labels.add('sig:%s' % ('kill' if s == 9 else 'rt' if s >= 34 else
                                   'core' if s in _CORE else 'term'))
            if kind == 'sig':
                labels.add('signo=%02d' % s)
        elif kind == 'exit':
            labels.add('sysexit:%s' % ('0' if kid.exit[1] == 0 else
                                       '1-127' if kid.exit[1] < 128
                                       else '128-255'))
    check_active()


def _for(method):
    def run_one(case):
        if case['method'] != method:
            raise HarnessError('case for %s replayed in part %s'
                               % (case['method'], method))
        return execute(case)
    return run_one


PARTS = {'fork': _for('fork'), 'spawn': _for('spawn'),
         'forkserver': _for('forkserver'), 'enum': execute}


def _one(method, exit_path):
    """the fixed scenario of part enum: poll and a timed join while the child
    is blocked, poll after its end and before the join, join"""
    return {'method': method, 'default_ctx': False,
            'children': [{'exit': list(exit_path), 'delay_ms': 0,
                          'foreign': False}],
            'pre': [['poll', 0], ['join', 0, 0.05], ['alive', 0]],
            'script': [], 'finale': 'poll'}


def enum_cases(thorough):
    """every fatal signal (self-inflicted) and the sys.exit codes, one child
    each: quick = fork x all signals + boundary codes; thorough = all three
    methods x all signals, fork x every code 0..255, boundary codes for the
    other two methods"""
    edge = [0, 1, 2, 126, 127, 128, 129, 254, 255]
    out = []
    for m in (('fork', 'spawn', 'forkserver') if thorough else ('fork',)):
        out.extend(_one(m, ['sig', s]) for s in FATAL)
        codes = range(256) if (thorough and m == 'fork') else edge
        out.extend(_one(m, ['exit', n]) for n in codes)
    return out


def run(ctx):
    # (cases per shard, wall cap per shard in s).  The caps only bite when the
    # box is badly oversubscribed (a fork case costs ~0.2 s on a quiet box and
    # >2 s at load 80); a cut part is reported as budget_cut in the evidence.
    plan = (('fork', ctx.pick(25, 600), ctx.pick(30, 330)),
            ('spawn', ctx.pick(3, 200), ctx.pick(12, 165)),
            ('forkserver', ctx.pick(3, 200), ctx.pick(12, 165)))
    broken = []

    def guarded(fn):
        # an exception escaping into Hypothesis would be replayed and reported
        # as "flaky"; keep the traceback and fail the shard as a harness error
        def run_one(case):
            if broken:
                return inconclusive('harness error earlier in this shard')
            try:
                return fn(case)
            except Exception:
                broken.append('%s\ncase: %r' % (format_exc(), case))
                return inconclusive('harness error')
        return run_one

    def confirmed(fn):
        # ctx.enumerate has no reexecute_confirm: same 3/3 rule done here
        def run_one(case):
            out = fn(case)
            if out.violated:
                for _ in range(2):
                    again = fn(case)
                    if not again.violated:
                        return ok(False, tuple(again.labels) +
                                  ('unconfirmed_failure',))
            return out
        return run_one

    ctx.enumerate('enum', enum_cases(ctx.tier == 'thorough'),
                  confirmed(guarded(PARTS['enum'])),
                  time_cap=ctx.pick(15, 240))
    if broken:
        raise HarnessError('exception in part enum:\n%s' % broken[0])
    for method, n, cap in plan:
        if ctx.violations:        # one minimised counterexample is enough
            return
        ctx.explore(method, cases(method), guarded(PARTS[method]), n=n,
                    shrink_budget=12, reexecute_confirm=2, time_cap=cap)
        if broken:
            raise HarnessError('exception in part %s:\n%s'
                               % (method, broken[0]))
