"""C02 - results equal the sequential computation: value, order, exception."""
from engines import realparts as rp
from engines import simgen as g
from engines.simprop import make_execute

LEVEL = 'exploration'
RULE = ('real: all six entry points (apply, map, starmap, imap, imap_unordered, map_async) on real pools of 1-4 processes, n 0-14, chunksize None/1/2/3/5/20, raising positions; one pool per case. ' 
        'sim: E1 histories: functions from a family of pure module-level functions '
        '(identity, affine, pair-returning, raising at a generated set of positions '
        'with 6 exception types incl. BaseException subclasses, two-argument '
        'functions for starmap), input length 0-12, chunksize None/1/2/3/5/14, pool '
        'size 1-4, every order of acceptance and completion of chunks by different '
        'workers, results arriving before set_length (interleaved feeder). '
        'Non-trivial: a multi-chunk job with out-of-order completion, or >=1 '
        'raising position, or length % chunksize != 0. '
        'simrecycle: the same jobs on pools with a per-child task quota, slow '
        'parts, supervision steps and clock advances past the lost-worker timeout '
        '(no deaths); non-trivial: a recycle exit and a multi-part job completed '
        'out of order.')
ASSUMPTIONS = [
    'chunked imap (chunksize>1) is observed at the iterator of chunks; the '
    'generator expression the API wraps around it ends at the first error by '
    'language rules',
    'real pools (all six entry points) are covered by part real',
]
SHARDS = {'quick': 8, 'thorough': 16}
WALL_LIMIT = {'quick': 1500, 'thorough': 6 * 3600}


def sim_cases():
    cfg = g.config(threads=True, putlocks=False)
    ops = g.worker_ops + g.worker_ops + [
        g.op_apply(), g.op_map(), g.op_map(), g.op_imap(chunked=True),
        g.op_imap(chunked=True), g.work, g.work,
        g.feed, g.feed_fault.filter(lambda o: o[1] is None),
    ]
    return g.history(cfg, ops, max_ops=60, min_ops=10)


def recycle_cases():
    """the same jobs on a pool that recycles its workers (per-child task quota)
    while parts of a map / imap are still running: slow parts, supervision
    steps and clock advances past the lost-worker timeout, no deaths - every
    result must still be the sequential one"""
    cfg = g.config(threads=True, putlocks=False, maxtasks=True, lost=True)
    ops = g.worker_ops + [
        g.op_map(), g.op_imap(chunked=True), g.op_imap(chunked=True), g.op_imap(),
        g.work, g.work, g.run, g.feed, g.tick, g.tick, g.tick, g.adv, g.adv,
        g.slow, g.slow, g.wexit,
        g.straggle.map(lambda o: o[:3] + [False]), g.parkrecycle, g.parkrecycle,
    ]
    return g.history(cfg, ops, max_ops=60, min_ops=12)


def _nontrivial_recycle(labels, sim):
    return any(e[1] == 155 for e in sim.exits) and any(
        mj.kind != 'apply' and getattr(mj, 'out_of_order', False)
        for mj in sim.jobs)


def _nontrivial(labels, sim):
    for mj in sim.jobs:
        if mj.kind == 'apply':
            continue
        n = len(mj.expected)
        if any(e[0] == 'err' for e in mj.expected):
            return True
        if mj.chunksize and n % mj.chunksize and len(mj.parts) >= 2:
            return True
        if getattr(mj, 'out_of_order', False):
            return True
    return False


execute_sim = make_execute({'c01', 'c02'}, _nontrivial, prop='C02')
execute_recycle = make_execute({'c01', 'c02'}, _nontrivial_recycle, prop='C02')
PARTS = {'sim': execute_sim, 'real': rp.execute_c02, 'simrecycle': execute_recycle}
EXPLORE = {'sim': (sim_cases(), execute_sim), 'real': (rp.c02_cases(), rp.execute_c02),
           'simrecycle': (recycle_cases(), execute_recycle)}


def run(ctx):
    ctx.explore('sim', sim_cases(), execute_sim, n=ctx.pick(250, 25000))
    ctx.explore('simrecycle', recycle_cases(), execute_recycle,
                n=ctx.pick(150, 15000))
    ctx.explore('real', rp.c02_cases(), rp.execute_c02, n=ctx.pick(6, 150),
                shrink_budget=6, reexecute_confirm=2)
