"""C04 - a worker dying mid-task yields WorkerLostError for exactly its job."""
from engines import realparts as rp
from engines import simgen as g
from engines.simprop import make_execute

LEVEL = 'exploration'
RULE = ('real: 1-3 tasks kill their own process (SIGKILL/SEGV/ABRT/BUS/FPE/TERM/HUP/QUIT or os._exit(n)) at a generated offset inside the task, lost timeout 0.3-1.0 s, 2-8 other jobs (and a map) in flight. ' 
        'sim: E1 histories with jobs of all kinds on pools 1-4 (with/without '
        'maxtasksperchild), deaths of RUNNING/IDLE workers with any of 18 signals '
        'or exit codes 0-255, several concurrent victims, ticks and clock advances '
        'around the lost-worker timeout (0.5/2/10/30 s), deaths noticed before or '
        'after the victim\'s pending messages are delivered. Non-trivial: a death '
        'while RUNNING with >=1 other job in flight, or a recycle exit while a '
        'multi-part job is unfinished. Distinct = canonical JSON of the case.')
ASSUMPTIONS = [
    'simulated workers die only while IDLE or RUNNING; Td is the fake time of the '
    'supervision step that reaped the worker',
    'zones of open known findings are excluded by construction and counted '
    '(faults after close); losses of imap parts and deaths reaped before the '
    'victim\'s ACK is consumed are generated and judged (repaired D4/D13/D9, D7)',
]
SHARDS = {'quick': 8, 'thorough': 16}
WALL_LIMIT = {'quick': 1500, 'thorough': 6 * 3600}


def sim_cases():
    cfg = g.config(maxtasks=True, lost=True)
    ops = g.worker_ops + [
        g.op_apply(lost=True), g.op_apply(lost=True), g.op_map(), g.op_imap(),
        g.work, g.work, g.work, g.work, g.feed, g.tick, g.tick, g.tick,
        g.adv, g.adv, g.adv, g.die, g.dier, g.dier, g.dier, g.die_any, g.wexit,
        # the shutdown path must report losses too (close, then a running
        # worker dies with nothing queued)
        g.close, g.dier0, g.lastgasp, g.lastgasp, g.slow,
        g.straggle.map(lambda o: o[:3] + [False]), g.parkrecycle,
    ]
    return g.history(cfg, ops, max_ops=70, min_ops=15)


def _nontrivial(labels, sim):
    if 'death_running' in labels and len(sim.jobs) >= 2:
        return True
    return 'recycle_exit' in labels and any(
        mj.kind != 'apply' for mj in sim.jobs)


execute_sim = make_execute({'c04'}, _nontrivial, prop='C04')
PARTS = {'sim': execute_sim, 'real': rp.execute_c04,
         'realimap': rp.execute_c04_imap, 'lateack': rp.execute_c04_lateack}
EXPLORE = {'sim': (sim_cases(), execute_sim), 'real': (rp.c04_cases(), rp.execute_c04),
           'realimap': (rp.c04_imap_cases(), rp.execute_c04_imap),
           'lateack': (rp.c04_lateack_cases(), rp.execute_c04_lateack)}


def run(ctx):
    ctx.explore('sim', sim_cases(), execute_sim, n=ctx.pick(250, 25000))
    ctx.explore('real', rp.c04_cases(), rp.execute_c04, n=ctx.pick(3, 40),
                shrink_budget=6, reexecute_confirm=2)
    ctx.explore('realimap', rp.c04_imap_cases(), rp.execute_c04_imap,
                n=ctx.pick(2, 30), shrink_budget=6, reexecute_confirm=2)
    ctx.explore('lateack', rp.c04_lateack_cases(), rp.execute_c04_lateack,
                n=ctx.pick(2, 20), shrink_budget=4, reexecute_confirm=2)
