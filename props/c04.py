"""C04 - a worker dying mid-task yields WorkerLostError for exactly its job."""
from engines import simgen as g
from engines.simprop import make_execute

LEVEL = 'exploration'
RULE = ('sim: E1 histories with jobs of all kinds on pools 1-4 (with/without '
        'maxtasksperchild), deaths of RUNNING/IDLE workers with any of 18 signals '
        'or exit codes 0-255, several concurrent victims, ticks and clock advances '
        'around the lost-worker timeout (0.5/2/10/30 s), deaths noticed before or '
        'after the victim\'s pending messages are delivered. Non-trivial: a death '
        'while RUNNING with >=1 other job in flight, or a recycle exit while a '
        'multi-part job is unfinished. Distinct = canonical JSON of the case.')
ASSUMPTIONS = [
    'simulated workers die only while IDLE or RUNNING; Td is the fake time of the '
    'supervision step that reaped the worker',
    'zones of open known findings are excluded by construction and counted '
    '(imap part owner dies, death reaped before its ACK is consumed, faults '
    'after close)',
]
SHARDS = {'quick': 4, 'thorough': 16}


def sim_cases():
    cfg = g.config(maxtasks=True, lost=True)
    ops = g.worker_ops + [
        g.op_apply(lost=True), g.op_apply(lost=True), g.op_map(), g.op_imap(),
        g.work, g.work, g.work, g.work, g.feed, g.tick, g.tick, g.tick,
        g.adv, g.adv, g.adv, g.die, g.dier, g.dier, g.dier, g.die_any, g.wexit,
    ]
    return g.history(cfg, ops, max_ops=70, min_ops=15)


def _nontrivial(labels, sim):
    if 'death_running' in labels and len(sim.jobs) >= 2:
        return True
    return 'recycle_exit' in labels and any(
        mj.kind != 'apply' for mj in sim.jobs)


execute_sim = make_execute({'c04'}, _nontrivial, prop='C04')
PARTS = {'sim': execute_sim}
EXPLORE = {'sim': (sim_cases(), execute_sim)}


def run(ctx):
    ctx.explore('sim', sim_cases(), execute_sim, n=ctx.pick(500, 25000))
