"""C10 - slot semaphore is bounded, conserved and never leaked."""
import itertools

from hypothesis import strategies as st

from engines import simgen as g
from engines.simprop import make_execute
from vlib.core import bad, ok

LEVEL = 'exploration'
RULE = ('unit: op sequences (acquire-nonblocking, release, grow, shrink when '
        'value>0, clear; up to 200 ops, n 0-8) on LaxBoundedSemaphore against the '
        'reference model (v,b); all sequences up to length 7 over n in 0..2 are '
        'enumerated. sim: E1 histories with putlocks=True, apply jobs taking '
        'slots, deaths, recycles, limit kills with late results, grow/shrink, '
        'put faults, close. Non-trivial: unit - a release at the cap or a '
        'grow/shrink; sim - >=1 fault op (death, limit kill, put fault, '
        'grow/shrink).')
ASSUMPTIONS = [
    'map chunks release without having acquired: map jobs stay in the bound '
    'clause (P1) but out of the in-flight clause (P3)',
    'P3 is asserted on exit-free histories, P2 at quiescence only',
]
SHARDS = {'quick': 4, 'thorough': 16}


def execute_unit(case):
    from billiard.pool import LaxBoundedSemaphore
    n = case['n']
    sem = LaxBoundedSemaphore(n)
    v = b = n
    labels = set()
    for op in case['ops']:
        if op == 'a':
            got = sem.acquire(False)
            want = v > 0
            if got != want:
                return bad('C10/unit-acquire', 'acquire(False)=%r with model '
                           'value %d' % (got, v))
            if want:
                v -= 1
        elif op == 'r':
            if v == b:
                labels.add('release_at_cap')
            sem.release()
            v = min(v + 1, b)
        elif op == 'g':
            sem.grow()
            v += 1
            b += 1
            labels.add('grow')
        elif op == 's':
            if v <= 0:
                continue     # would block: the pool only shrinks with a free slot
            sem.shrink()
            v -= 1
            b -= 1
            labels.add('shrink')
        elif op == 'c':
            sem.clear()
            v = b
        if sem._value != v or sem._initial_value != b:
            return bad('C10/unit-model', 'after %r: value %d bound %d, model '
                       '(%d,%d)' % (op, sem._value, sem._initial_value, v, b))
        if sem._value > sem._initial_value:
            return bad('C10/unit-above-bound', 'value %d bound %d' % (
                sem._value, sem._initial_value))
    return ok(bool(labels), sorted(labels))


def unit_cases():
    return st.fixed_dictionaries({
        'n': st.integers(0, 8),
        'ops': st.lists(st.sampled_from(['a', 'a', 'r', 'r', 'r', 'g', 's', 'c']),
                        min_size=1, max_size=200),
    })


def unit_small_scope():
    for n in (0, 1, 2):
        for ln in range(1, 8):
            for seq in itertools.product('argsc', repeat=ln):
                yield {'n': n, 'ops': list(seq)}


def sim_cases():
    cfg = g.config(maxtasks=True, limits=True, putlocks=True)
    ops = g.worker_ops + [
        g.op_apply(limits=True, unpicklable=True), g.op_apply(), g.op_apply(),
        g.op_map(), g.work, g.work, g.work, g.run, g.feed, g.feed_fault, g.tick,
        g.tick, g.adv, g.adv_lim, g.die, g.dier, g.wexit, g.scan, g.scan,
        g.grow, g.shrink, g.close, g.hterm,
    ]
    return g.history(cfg, ops, max_ops=70, min_ops=15)


_FAULTS = {'death_running', 'death_idle', 'putfail_injected', 'putfail_pickle',
           'putfail_direct', 'grow', 'shrink', 'recycle_exit'}


def _nontrivial(labels, sim):
    return bool(labels & _FAULTS) or any(
        getattr(mj, 'hard_fired', False) for mj in sim.jobs)


execute_sim = make_execute({'c10', 'c05'}, _nontrivial, prop='C10')
PARTS = {'unit': execute_unit, 'unit-small': execute_unit, 'sim': execute_sim}
EXPLORE = {'unit': (unit_cases(), execute_unit), 'sim': (sim_cases(), execute_sim)}


def run(ctx):
    ctx.enumerate('unit-small', unit_small_scope(), execute_unit)
    ctx.explore('unit', unit_cases(), execute_unit, n=ctx.pick(1500, 40000))
    ctx.explore('sim', sim_cases(), execute_sim, n=ctx.pick(400, 20000))
