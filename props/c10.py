"""C10 - slot semaphore is bounded, conserved and never leaked."""
import itertools

from hypothesis import strategies as st

from engines import simgen as g
from engines.simprop import make_execute
from vlib.core import bad, inconclusive, ok

LEVEL = 'exploration'
RULE = ('unit: op sequences (acquire-nonblocking, release, grow, shrink - with no '
        'free slot it must wait for a release -, clear; up to 200 ops, n 0-8) on '
        'LaxBoundedSemaphore against the '
        'reference model (v,b); all sequences up to length 7 over n in 0..2 are '
        'enumerated. sim: E1 histories with putlocks=True, apply jobs taking '
        'slots, deaths, recycles, limit kills with late results, grow/shrink, '
        'put faults, close. Non-trivial: unit - a release at the cap or a '
        'grow/shrink; sim - >=1 fault op (death, limit kill, put fault, '
        'grow/shrink).')
ASSUMPTIONS = [
    'map chunks release without having acquired: map jobs stay in the bound '
    'clause (P1) but out of the in-flight clause (P3)',
    'P3 is asserted on exit-free histories, P2 at quiescence only',
]
SHARDS = {'quick': 4, 'thorough': 16}


def execute_unit(case):
    from billiard.pool import LaxBoundedSemaphore
    n = case['n']
    sem = LaxBoundedSemaphore(n)
    v = b = n
    labels = set()
    for op in case['ops']:
        if op == 'a':
            got = sem.acquire(False)
            want = v > 0
            if got != want:
                return bad('C10/unit-acquire', 'acquire(False)=%r with model '
                           'value %d' % (got, v))
            if want:
                v -= 1
        elif op == 'r':
            if v == b:
                labels.add('release_at_cap')
            sem.release()
            v = min(v + 1, b)
        elif op == 'g':
            sem.grow()
            v += 1
            b += 1
            labels.add('grow')
        elif op == 's':
            if v <= 0:
                # no free slot: shrink() has to wait for one (Pool.shrink() with
                # every slot taken waits for the next result).  Not with a last
                # slot: release() could never serve it.
                if b < 2:
                    continue
                import threading
                th = threading.Thread(target=sem.shrink)
                th.daemon = True
                th.start()
                th.join(0.003)
                if not th.is_alive():
                    return bad('C10/unit-shrink-did-not-wait', 'shrink() with no '
                               'free slot returned at once: value %d bound %d, '
                               'model (%d,%d)' % (sem._value, sem._initial_value,
                                                  v, b))
                sem.release()
                th.join(20)
                if th.is_alive():
                    return inconclusive('waiting shrink() not served within 20 s')
                b -= 1
                labels.add('shrink_waited')
            else:
                sem.shrink()
                v -= 1
                b -= 1
                labels.add('shrink')
        elif op == 'c':
            sem.clear()
            v = b
        if sem._value != v or sem._initial_value != b:
            return bad('C10/unit-model', 'after %r: value %d bound %d, model '
                       '(%d,%d)' % (op, sem._value, sem._initial_value, v, b))
        if sem._value > sem._initial_value:
            return bad('C10/unit-above-bound', 'value %d bound %d' % (
                sem._value, sem._initial_value))
    return ok(bool(labels), sorted(labels))


def unit_cases():
    return st.fixed_dictionaries({
        'n': st.integers(0, 8),
        'ops': st.lists(st.sampled_from(['a', 'a', 'r', 'r', 'r', 'g', 's', 'c']),
                        min_size=1, max_size=200),
    })


def unit_small_scope():
    for n in (0, 1, 2):
        for ln in range(1, 8):
            for seq in itertools.product('argsc', repeat=ln):
                yield {'n': n, 'ops': list(seq)}


# ---- real threads racing on one semaphore -------------------------------------
def threads_cases():
    return st.fixed_dictionaries({
        'n': st.integers(1, 4),
        'threads': st.integers(2, 4),
        'rounds': st.integers(300, 2000),
        # how many slots are outstanding when the threads race to release
        'outstanding': st.integers(1, 2),
    })


def execute_threads(case):
    """Every round: take `outstanding` slots, then all threads release at the
    same moment (more releases than slots outstanding - what the result handler
    and the supervisor do for one job whose worker is replaced).  The surplus
    must be dropped: value == bound afterwards, never above."""
    import sys
    import threading
    from billiard.pool import LaxBoundedSemaphore
    n, k = case['n'], case['threads']
    out = min(case['outstanding'], n)
    sem = LaxBoundedSemaphore(n)
    old = sys.getswitchinterval()
    sys.setswitchinterval(1e-6)
    worst = [0]
    try:
        barrier = threading.Barrier(k)
        stop = []

        def releaser():
            for _ in range(case['rounds']):
                try:
                    barrier.wait(timeout=30)
                except threading.BrokenBarrierError:
                    return
                sem.release()
                try:
                    barrier.wait(timeout=30)
                except threading.BrokenBarrierError:
                    return

        def driver():
            for r in range(case['rounds']):
                for _ in range(out):
                    sem.acquire(False)
                try:
                    barrier.wait(timeout=30)     # everybody releases now
                    sem.release()
                    barrier.wait(timeout=30)
                except threading.BrokenBarrierError:
                    return
                v = sem._value
                if v > worst[0]:
                    worst[0] = v
                if v > sem._initial_value:
                    stop.append(r)
                    barrier.abort()
                    return
                while sem._value < sem._initial_value:   # normalise
                    sem.release()
        ths = [threading.Thread(target=releaser) for _ in range(k - 1)]
        d = threading.Thread(target=driver)
        for t in ths + [d]:
            t.start()
        for t in ths + [d]:
            t.join(120)
        if any(t.is_alive() for t in ths + [d]):
            barrier.abort()
            return inconclusive('threads did not finish')
    finally:
        sys.setswitchinterval(old)
    if stop:
        return bad('C10/threads-above-bound', 'after %d threads released '
                   'concurrently with %d slot(s) outstanding the value is %d, '
                   'bound %d (round %d)' % (k, out, sem._value,
                                            sem._initial_value, stop[0]))
    return ok(True, ['threads=%d' % k, 'outstanding=%d' % out])


def sim_cases():
    cfg = g.config(maxtasks=True, limits=True, putlocks=True)
    ops = g.worker_ops + [
        g.op_apply(limits=True, unpicklable=True), g.op_apply(), g.op_apply(),
        g.op_map(), g.work, g.work, g.work, g.run, g.feed, g.feed_fault, g.tick,
        g.tick, g.adv, g.adv_lim, g.die_any, g.dier, g.dier0, g.wexit, g.scan, g.scan,
        g.grow, g.shrink, g.close, g.hterm,
    ]
    return g.history(cfg, ops, max_ops=70, min_ops=15)


_FAULTS = {'death_running', 'death_idle', 'putfail_injected', 'putfail_pickle',
           'putfail_direct', 'grow', 'shrink', 'recycle_exit'}


def _nontrivial(labels, sim):
    return bool(labels & _FAULTS) or any(
        getattr(mj, 'hard_fired', False) for mj in sim.jobs)


execute_sim = make_execute({'c10', 'c05'}, _nontrivial, prop='C10')
PARTS = {'unit': execute_unit, 'unit-small': execute_unit, 'sim': execute_sim,
         'threads': execute_threads}
EXPLORE = {'unit': (unit_cases(), execute_unit), 'sim': (sim_cases(), execute_sim),
           'threads': (threads_cases(), execute_threads)}


def run(ctx):
    ctx.enumerate('unit-small', unit_small_scope(), execute_unit)
    ctx.explore('unit', unit_cases(), execute_unit, n=ctx.pick(1500, 40000))
    ctx.explore('sim', sim_cases(), execute_sim, n=ctx.pick(400, 20000))
    ctx.explore('threads', threads_cases(), execute_threads, n=ctx.pick(25, 600),
                shrink_budget=0)
