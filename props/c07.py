"""C07 - close() then join() drains all work and leaves no processes behind."""
from engines import realparts as rp
from engines import simgen as g
from engines.simprop import make_execute

LEVEL = 'exploration'
RULE = ('real: pool size 1-4, threads on/off, 0-10 apply/map/imap jobs of 0-0.3 s, close() at a generated offset, join(), then late submissions; optionally an idle worker is told to exit and replaced before, or close() is called while the supervisor is replacing it (replacement slow to build: dead worker off the list, new one not yet on it). ' 
        'sim: E1 histories of apply/map/starmap/imap submissions and worker '
        'progress with close() at a generated position, then quiesce and join(): '
        'every job handed out before close() must be resolved with its sequential '
        'value, join() must not block on a live worker, no worker may wait out the '
        '30 s result-consumption guard (each worker\'s consumed-result counter must '
        'reach its number of results), submissions after close() return None. '
        'Non-trivial: >=1 job unfinished at close(), or a map/imap job present.')
ASSUMPTIONS = [
    'a worker may die and be replaced before close(), but close() is generated '
    'only when no exit is pending, and there is no maxtasksperchild (a closed '
    'pool does not replace workers - known finding D10)',
    'real processes/threads being gone after join() is checked by part real',
]
SHARDS = {'quick': 8, 'thorough': 16}
WALL_LIMIT = {'quick': 1500, 'thorough': 6 * 3600}


def sim_cases():
    cfg = g.config(threads=True, putlocks=False)
    ops = g.worker_ops + [
        g.op_apply(), g.op_apply(), g.op_map(), g.op_map(), g.op_imap(chunked=True),
        g.work, g.work, g.work, g.feed, g.close, g.tick, g.tick, g.adv,
        # workers replaced (death noticed and repaired) BEFORE close() - a
        # replacement's results must be credited like anybody else's
        g.die, g.grow,
        # close() while the supervisor is starting a replacement
        g.closerace,
        # a task that is still running long after the others are done
        g.slow, g.slow, g.run, g.straggle, g.straggle,
    ]
    return g.history(cfg, ops, max_ops=50, min_ops=8)


def _nontrivial(labels, sim):
    if 'close' not in labels:
        return False
    return any(mj.kind != 'apply' for mj in sim.jobs) or \
        getattr(sim, 'unfinished_at_close', 0) > 0


execute_sim = make_execute({'c01', 'c02', 'c07'}, _nontrivial, prop='C07')
PARTS = {'sim': execute_sim, 'real': rp.execute_c07}
EXPLORE = {'sim': (sim_cases(), execute_sim), 'real': (rp.c07_cases(), rp.execute_c07)}


def run(ctx):
    ctx.explore('sim', sim_cases(), execute_sim, n=ctx.pick(250, 25000))
    ctx.explore('real', rp.c07_cases(), rp.execute_c07, n=ctx.pick(4, 60),
                shrink_budget=6, reexecute_confirm=2)
