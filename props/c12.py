"""C12 - exceptions and tracebacks cross the process boundary intact.

Parts
  einfo     generated exception type / args / traceback depth (1..400 frames
            and unbounded recursion) -> ``ExceptionInfo()`` built inside the
            handler exactly like the worker loop does -> k pickle round trips;
            oracle on type, args, traceback text, extract_tb/format_exception,
            bounded depth + truncation marker, round-trip stability, and a
            differential comparison with the real traceback
  workloop  the real ``Worker.workloop`` in-process (engines/workerloop.py)
            fed generated task lists: return a value | raise a generated
            exception at a generated depth | return a value that cannot be
            pickled at nesting depth 0..5; oracle: the outq stream is exactly
            ACK,[READY] per task in order, failures arrive as (False, einfo)
            of the right type (MaybeEncodingError for unserialisable results),
            the loop runs the following tasks and ends normally
"""
import gc
import pickle
import traceback

from hypothesis import strategies as st

from billiard import einfo as E          # imported here, i.e. outside of
from billiard import pool as bp          # Hypothesis (it raises the recursion
                                         # limit while a test body runs and
                                         # DEFAULT_MAX_FRAMES is computed from
                                         # the limit at import time)
from engines import targets_c12 as T
from engines import workerloop
from vlib.core import bad, inconclusive, ok

LEVEL = 'exploration'
RULE = ('einfo: Hypothesis draws (exception type out of 22 builtin/custom '
        'classes incl. OSError-with-errno, UnicodeDecode/EncodeError, '
        'KeyboardInterrupt/SystemExit/GeneratorExit and BaseException '
        'subclasses; args = up to 4 nested values of int/text incl. non-BMP/'
        'bytes/None/bool/float/tuples; traceback frames 1..400 with the '
        'truncation edge 124..131 over-sampled, or unbounded recursion; k=1..5 '
        'round trips). workloop: 1..8 (thorough ..14) tasks each return-value | '
        'raise(type,args,depth) | unpicklable(leaf of 7 kinds, 0..5 wrappers of '
        '6 kinds), optional quota, optional SYN answers with NACKs, 1..3 trips. '
        'A case is non-trivial when depth >= 2 or k >= 2 or the exception is '
        'not an Exception subclass or an unpicklable result is nested >= 1 '
        'deep. Distinct = distinct canonical JSON of the case.')
ASSUMPTIONS = [
    'the truncation marker is recognised as an instance of einfo._Truncated; '
    'the bound is einfo.DEFAULT_MAX_FRAMES + 3 entries with billiard imported '
    'at the default recursion limit (1000 -> 128 entries)',
    'before the first round trip the original exception is read from '
    'ExceptionWithTraceback.exc; after it einfo.exception is the exception',
    'the __cause__ (RemoteTraceback carrying the traceback text) is checked '
    'after the first trip only: plain pickling of an exception does not carry '
    '__cause__, and the statement does not ask for it on further trips',
    'workloop part: the loop runs in a thread of the harness process (no '
    'fork, no after_fork, no signal handlers); SystemExit is never used as a '
    'task outcome there; sockets are not used as unpicklable leaves because '
    'billiard.reduction makes them picklable (DupFd via resource_sharer)',
    'MaybeEncodingError.args are compared too (the re-repr() defect this check '
    'found was repaired: fix commit 3ed0205, replays/regress/C12-D16-*)',
    'the traceback module is asked to extract_tb + format_exception at the '
    'first and the last stage of every record; between stages extract_tb '
    'results are compared without the source text (files of the repo may be '
    'edited while a run is in progress) and every entry is fingerprinted '
    '(tb_lasti, f_lineno, co_firstlineno, co_qualname, co_positions, '
    'f_globals)',
    'mutants (all killed in the quick tier): cut-no-marker, no-frame-limit, '
    'drop-cause, lineno-from-frame, text-from-truncated, positions-iterator '
    '(einfo.py); enc-error-not-sent, enc-error-wrong-type, '
    'enc-error-wrong-value, base-exc-escapes (pool.py workloop)',
    'the real-pool (E3) variant named in the plan for the thorough tier is '
    'not part of this module',
]
SHARDS = {'quick': 4, 'thorough': 16}

BOUND = E.DEFAULT_MAX_FRAMES + 3


# ---------------------------------------------------------------------------
# generators
# ---------------------------------------------------------------------------

_NONBMP = st.text(alphabet=st.characters(min_codepoint=0x10000,
                                         max_codepoint=0x1FAFF),
                  min_size=1, max_size=3)
_LEAFV = st.one_of(
    st.none(), st.booleans(), st.integers(-9, 9),
    st.integers(-2 ** 70, 2 ** 70),
    st.text(max_size=10), _NONBMP,
    st.binary(max_size=6).map(lambda b: {'b': list(b)}),
    st.floats(allow_nan=False, allow_infinity=False, width=32),
)
_VAL = st.recursive(_LEAFV, lambda c: st.lists(c, max_size=3), max_leaves=5)
_ARGS = st.lists(_VAL, max_size=4)

_TYPE = st.sampled_from(sorted(T.EXC_TYPES))
_TYPE_NO_SYSEXIT = st.sampled_from(sorted(set(T.EXC_TYPES) - {'SystemExit'}))

_EDGE = list(range(E.DEFAULT_MAX_FRAMES - 1, E.DEFAULT_MAX_FRAMES + 7))
_FRAMES = st.one_of(
    st.integers(2, 12),
    st.sampled_from(_EDGE),
    st.integers(1, 400),
    st.sampled_from([1, 2, 3, 200, 399, 400]),
    st.sampled_from([0, 0, 1]),            # 0 = unbounded recursion
)


def _normalise(case):
    if case['frames'] == 0:     # the interpreter raises, type/args are unused
        case = dict(case, type='RuntimeError', args=[])
    return case


def einfo_cases():
    return st.fixed_dictionaries({
        'type': _TYPE, 'args': _ARGS, 'frames': _FRAMES,
        'k': st.sampled_from([1, 2, 2, 3, 3, 4, 5]),
    }).map(_normalise)


_DEPTH = st.one_of(
    st.integers(1, 6), st.integers(1, 6), st.integers(1, 6), st.integers(2, 30),
    st.sampled_from([d - 2 for d in _EDGE]),    # the loop adds two frames
    st.sampled_from([40, 200, 400]),
    st.sampled_from([0, 1, 2]),
)
_BEH = st.one_of(
    st.fixed_dictionaries({'kind': st.just('ret'), 'value': _VAL}),
    st.fixed_dictionaries({'kind': st.just('raise'), 'type': _TYPE_NO_SYSEXIT,
                           'args': _ARGS, 'depth': _DEPTH}),
    st.fixed_dictionaries({'kind': st.just('raise'), 'type': _TYPE_NO_SYSEXIT,
                           'args': _ARGS, 'depth': _DEPTH}),
    st.fixed_dictionaries({
        'kind': st.just('unp'), 'leaf': st.sampled_from(T.LEAVES),
        'wrap': st.lists(st.sampled_from(T.WRAPPERS), max_size=5)}),
    st.fixed_dictionaries({
        'kind': st.just('unp'), 'leaf': st.sampled_from(T.LEAVES),
        'wrap': st.lists(st.sampled_from(T.WRAPPERS), max_size=5)}),
)
_TASK = st.fixed_dictionaries({
    'job': st.integers(0, 10 ** 6),
    'i': st.one_of(st.none(), st.integers(0, 500)),
    'beh': _BEH,
    'ack': st.sampled_from([True, True, True, True, False]),
})


def workloop_cases(max_tasks):
    return st.fixed_dictionaries({
        'tasks': st.lists(_TASK, min_size=1, max_size=max_tasks),
        'quota': st.one_of(st.none(), st.none(), st.integers(1, 8)),
        'synack': st.sampled_from([False, False, True]),
        'k': st.integers(1, 3),
        # also compare MaybeEncodingError.args with what the loop built (the
        # re-repr() defect found here was repaired by the fix commit 3ed0205)
        'enc_args': st.just(True),
    })


# ---------------------------------------------------------------------------
# oracle pieces shared by both parts
# ---------------------------------------------------------------------------

def _chain(tb, limit=5000):
    """[(co_filename, co_name, tb_lineno, is_marker)] of a tb-like chain"""
    out = []
    while tb is not None and len(out) < limit:
        code = tb.tb_frame.f_code
        out.append((code.co_filename, code.co_name, tb.tb_lineno,
                    type(tb) is E._Truncated))
        tb = tb.tb_next
    return out


def _same_args(a, b):
    return a == b and repr(a) == repr(b)


def _exc_of(info):
    exc = info.exception
    if isinstance(exc, E.ExceptionWithTraceback):
        exc = exc.exc
    return exc


def _check_shape(chain, expect_total, where):
    """bounded depth + marker rules; expect_total = entries of the original
    traceback (None: unknown but certainly deeper than the bound)"""
    if len(chain) > BOUND:
        return bad('C12/tb-too-deep', '%s: %d entries > bound %d' % (
            where, len(chain), BOUND))
    markers = [n for n, c in enumerate(chain) if c[3]]
    if markers and markers != [len(chain) - 1]:
        return bad('C12/tb-marker-misplaced', '%s: marker at %r of %d' % (
            where, markers, len(chain)))
    kept = len(chain) - len(markers)
    if kept == 0:
        return bad('C12/tb-empty', '%s: no frame in the traceback' % where)
    if expect_total is None or kept < expect_total:
        if not markers:
            return bad('C12/tb-cut-without-marker', '%s: %d of %s frames kept '
                       'and no truncation marker' % (where, kept, expect_total))
    elif kept > expect_total:
        return bad('C12/tb-not-prefix', '%s: %d frames kept, the original had '
                   '%d' % (where, kept, expect_total))
    elif markers:
        return bad('C12/tb-marker-misplaced', '%s: complete traceback (%d) '
                   'marked as truncated' % (where, kept))
    return None


def _summary(info, where):
    """traceback.extract_tb on the record's traceback, reduced to what does
    not depend on the source files' *current* content (they may be edited
    while a run is in progress; linecache then serves other text)"""
    try:
        ss = traceback.extract_tb(info.tb)
    except Exception as exc:    # raised by stdlib code walking billiard objects
        return None, bad('C12/tb-format-failed', '%s: extract_tb: %s: %r' % (
            where, type(exc).__name__, exc))
    if not len(ss):
        return None, bad('C12/tb-format-failed', '%s: extract_tb gave nothing'
                         % where)
    return _reduce_summary(ss), None


def _reduce_summary(ss):
    return [(f.filename, f.lineno, getattr(f, 'end_lineno', None),
             getattr(f, 'colno', None), getattr(f, 'end_colno', None), f.name)
            for f in ss]


_HEADER = 'Traceback (most recent call last):\n'


def _format_full(info, where):
    """format_exception and format_tb must work on the record"""
    try:
        full = traceback.format_exception(info.type, _exc_of(info), info.tb)
    except Exception as exc:
        return bad('C12/tb-format-failed', '%s: format_exception: %s: %r' % (
            where, type(exc).__name__, exc))
    if _HEADER not in full or not all(isinstance(x, str) for x in full):
        return bad('C12/tb-format-failed', '%s: format_exception printed no '
                   'traceback section' % where)
    return None


def _trip(info, where):
    try:
        return pickle.loads(pickle.dumps(info)), None
    except Exception as exc:
        return None, bad('C12/not-picklable', '%s: %s: %r' % (
            where, type(exc).__name__, exc))


def _fingerprint(tb):
    """everything else the traceback module may look at, per entry; only ever
    compared between two stages of the same record"""
    out = []
    while tb is not None and len(out) < 5000:
        fr = tb.tb_frame
        code = fr.f_code
        pos = getattr(code, 'co_positions', None)
        out.append((tb.tb_lasti, getattr(fr, 'f_lineno', None),
                    getattr(fr, 'f_lasti', None),
                    getattr(code, 'co_firstlineno', None),
                    getattr(code, 'co_qualname', None),
                    hash(tuple(pos())) if pos is not None else None,
                    sorted(fr.f_globals.items(), key=repr).__repr__()))
        tb = tb.tb_next
    return out


class _Stage:
    """what was seen of a record at one stage (before / after a round trip)"""
    __slots__ = ('text', 'chain', 'finger', 'summary')


def _check_record(info, exp_type, exp_args, prev, where, fmt):
    """One stage of a record against the expected type/args and against the
    previous stage ``prev`` (None at the first one).  fmt true: also run the
    standard traceback module over it (extract_tb, compared with the previous
    extraction, and format_exception).  Returns (stage, violation)."""
    if type(info) is not E.ExceptionInfo:
        return None, bad('C12/record-type', '%s: got %r' % (where, type(info)))
    if info.type is not exp_type:
        return None, bad('C12/type-changed', '%s: einfo.type %r, raised %r' % (
            where, info.type, exp_type))
    exc = _exc_of(info)
    if type(exc) is not exp_type:
        return None, bad('C12/type-changed', '%s: exception is %r, raised %r'
                         % (where, type(exc), exp_type))
    if exp_args is not None and not _same_args(exc.args, exp_args):
        return None, bad('C12/args-changed', '%s: args %.300r, raised with '
                         '%.300r' % (where, exc.args, exp_args))
    if not isinstance(info.traceback, str):
        return None, bad('C12/text-changed', '%s: traceback text is %r' % (
            where, type(info.traceback)))
    st_ = _Stage()
    st_.text = info.traceback
    st_.chain = _chain(info.tb)
    st_.finger = _fingerprint(info.tb)
    st_.summary = prev.summary if prev is not None else None
    if prev is not None:
        if st_.text != prev.text:
            return None, bad('C12/text-changed', '%s: traceback text differs '
                             'from the previous stage' % where)
        if st_.chain != prev.chain:
            return None, bad('C12/tb-changed-by-roundtrip', '%s: %d entries '
                             'before, %d after, first difference at %s' % (
                                 where, len(prev.chain), len(st_.chain),
                                 _first_diff(prev.chain, st_.chain)))
        if st_.finger != prev.finger:
            return None, bad('C12/tb-changed-by-roundtrip', '%s: frame/code '
                             'details differ, first at %.300s' % (
                                 where, _first_diff(prev.finger, st_.finger)))
    if fmt:
        summary, err = _summary(info, where)
        if err:
            return None, err
        if st_.summary is not None and summary != st_.summary:
            return None, bad('C12/tb-changed-by-roundtrip', '%s: extract_tb '
                             'differs from the previous stage, first at %s' % (
                                 where, _first_diff(st_.summary, summary)))
        st_.summary = summary
        err = _format_full(info, where)
        if err:
            return None, err
    return st_, None


def _first_diff(a, b):
    for n, (x, y) in enumerate(zip(a, b)):
        if x != y:
            return '%d: %r != %r' % (n, x, y)
    return 'length'


def _check_cause(info, where):
    """after the first crossing the exception carries the remote traceback"""
    cause = getattr(info.exception, '__cause__', None)
    if cause is None or info.traceback not in str(cause):
        return bad('C12/cause-missing', '%s: __cause__ is %r, it does not '
                   'carry the traceback text' % (where, type(cause)))
    return None


def _exc_class_label(cls):
    if cls.__module__ == T.__name__:
        return 'exc:custom-base' if not issubclass(cls, Exception) \
            else 'exc:custom'
    if not issubclass(cls, Exception):
        return 'exc:builtin-base'
    if issubclass(cls, OSError):
        return 'exc:oserror'
    if issubclass(cls, UnicodeError):
        return 'exc:unicode'
    return 'exc:builtin'


def _depth_label(total):
    if total is None:
        return 'frames:unbounded'
    if total == 1:
        return 'frames:1'
    if total < BOUND - 2:
        return 'frames:2..%d' % (BOUND - 3)
    if total <= BOUND + 2:
        return 'frames:edge(%d..%d)' % (BOUND - 2, BOUND + 2)
    return 'frames:>%d(truncated)' % (BOUND + 2)


def _args_labels(specs):
    out = set()
    if not specs:
        out.add('args:none')

    def walk(v, depth):
        if isinstance(v, list):
            out.add('args:nested' if depth else 'args:tuple')
            for x in v:
                walk(x, depth + 1)
        elif isinstance(v, dict):
            out.add('args:bytes')
        elif isinstance(v, str) and any(ord(c) > 0xFFFF for c in v):
            out.add('args:nonbmp')
    for s in specs:
        walk(s, 0)
    return out


# ---------------------------------------------------------------------------
# part einfo
# ---------------------------------------------------------------------------

def execute_einfo(case):
    frames, k = case['frames'], case['k']
    exc = T.build_exc(case['type'], case['args'])
    labels = {'k=%d' % k}
    built = {}

    def on_caught():
        # what Worker.workloop does in its ``except BaseException:``
        try:
            return E.ExceptionInfo()
        except Exception as e:
            built['error'] = e
            return None

    (rtype, rexc, rtb), info = T.capture(exc, frames, on_caught)
    try:
        if info is None:
            e = built['error']
            return bad('C12/einfo-raised', 'ExceptionInfo() raised %s: %r' % (
                type(e).__name__, e))
        if frames == 0:
            exp_type, exp_args = RecursionError, rexc.args
        else:
            exp_type, exp_args = type(exc), exc.args
            if rexc is not exc:
                raise AssertionError('harness: wrong exception caught')
        real = _chain(rtb, limit=10 ** 6)
        if frames and len(real) != frames:
            raise AssertionError('harness: %d frames, wanted %d' % (
                len(real), frames))
        labels.add(_exc_class_label(exp_type))
        labels.add(_depth_label(len(real) if frames else None))
        if frames:
            labels |= _args_labels(case['args'])

        # -- stage 0: the record as built in the "worker" -------------------
        stage, err = _check_record(info, exp_type, exp_args, None, 'as built',
                                   True)
        if err:
            return err
        chain = stage.chain
        err = _check_shape(chain, len(real), 'as built')
        if err:
            return err
        kept = [c for c in chain if not c[3]]
        if kept != real[:len(kept)]:
            return bad('C12/tb-not-prefix', 'as built: entry %s of the copied '
                       'traceback differs from the original' % _first_diff(
                           kept, real[:len(kept)]))
        text = info.traceback
        fname, name, lineno, _ = real[-1]
        needle = 'File "%s", line %d, in %s' % (fname, lineno, name)
        if needle not in text:
            return bad('C12/text-not-naming-frame', 'traceback text lacks %r'
                       % needle)
        last = traceback.format_exception_only(rtype, rexc)[-1]
        if not text.endswith(last):
            return bad('C12/text-not-naming-frame', 'traceback text does not '
                       'end with %r' % last)
        truncated = any(c[3] for c in chain)
        labels.add('truncated' if truncated else 'complete')
        if not truncated:
            real_sum = _reduce_summary(traceback.extract_tb(rtb))
            if stage.summary != real_sum:
                return bad('C12/tb-format-differs', 'the traceback module '
                           'reads the copied traceback differently from the '
                           'original (first difference: %s)' % _first_diff(
                               stage.summary, real_sum))

        # -- k round trips ---------------------------------------------------
        for n in range(1, k + 1):
            where = 'after trip %d' % n
            info, err = _trip(info, where)
            if err:
                return err
            # formatting is the expensive step: on the record the caller
            # receives (trip 1) and on the last one; in between the chain and
            # the per-entry fingerprint are compared
            stage, err = _check_record(
                info, exp_type, exp_args, stage, where,
                n == 1 or n == k)
            if err:
                return err
            if n == 1:
                err = _check_cause(info, where)
                if err:
                    return err
    finally:
        del rtb, rexc, exc
    nontrivial = (frames != 1 or k >= 2 or
                  not issubclass(exp_type, Exception))
    return ok(nontrivial, sorted(labels))


# ---------------------------------------------------------------------------
# part workloop
# ---------------------------------------------------------------------------

_THIS_LOOP_FRAMES = 2      # workloop() itself + T.task above raise_at


def execute_workloop(case):
    tasks = case['tasks']
    quota, k = case['quota'], case['k']
    synack = [bool(t.get('ack', True)) for t in tasks] \
        if case['synack'] else None
    specs = [(t['job'], t['i'], T.task, (n, t['beh']), {})
             for n, t in enumerate(tasks)]
    res = workerloop.run(specs, quota=quota, synack=synack, timeout=120.0)
    if res.timed_out:
        return inconclusive('worker loop needed more than 120 s')

    labels = set()
    if synack:
        labels.add('synack')

    # -- what must have happened -------------------------------------------
    expected, ran, done = [], [], 0
    for n, t in enumerate(tasks):
        if quota is not None and done >= quota:
            break
        expected.append(('ACK', t['job'], t['i']))
        if synack is not None and not synack[n]:
            labels.add('nack')
            continue
        expected.append(('READY', t['job'], t['i']))
        ran.append(n)
        done += 1
    if quota is not None and done >= quota:
        labels.add('quota-hit')

    if res.outcome[0] == 'raise':
        e = res.outcome[1]
        return bad('C12/worker-loop-died', 'workloop raised %s: %r after %r' % (
            type(e).__name__, e, res.messages))
    und = [m for m in res.messages if m.kind == 'UNDECODABLE']
    if und:
        e = und[0].error
        return bad('C12/not-picklable', 'a message of the loop cannot be '
                   'unpickled: %s: %r' % (type(e).__name__, e))
    got = [(m.kind, m.job, m.i) for m in res.messages]
    if got != expected:
        return bad('C12/stream', 'outq stream %r, expected %r' % (got, expected))
    tags = [w for w in res.witness if not isinstance(w, tuple)]
    if tags != ran:
        return bad('C12/stream', 'tasks executed %r, expected %r' % (tags, ran))
    reprs = {w[1]: w[2] for w in res.witness if isinstance(w, tuple)}

    # -- every READY against its task -----------------------------------------
    nontrivial = k >= 2
    readies = [m for m in res.messages if m.kind == 'READY']
    for pos, (n, m) in enumerate(zip(ran, readies)):
        beh = tasks[n]['beh']
        where = 'task %d (%s)' % (n, beh['kind'])
        labels.add('task:' + beh['kind'])
        if beh['kind'] == 'ret':
            want = T.decode(beh['value'])
            if m.ok is not True or not _same_args(m.value, want):
                return bad('C12/value-changed', '%s: READY (%r, %.200r), '
                           'returned %.200r' % (where, m.ok, m.value, want))
            continue
        if m.ok is not False:
            return bad('C12/failure-reported-as-success', '%s: READY (%r, '
                       '%.200r)' % (where, m.ok, m.value))
        info = m.value
        if pos + 1 < len(ran):
            labels.add('failure-then-next-task-ran')
        if beh['kind'] == 'raise':
            depth = beh['depth']
            if depth == 0:
                exp_type, exp_args, total = RecursionError, None, None
            else:
                exc = T.build_exc(beh['type'], beh['args'])
                exp_type, exp_args = type(exc), exc.args
                total = depth + _THIS_LOOP_FRAMES
                labels |= _args_labels(beh['args'])
            labels.add(_exc_class_label(exp_type))
            labels.add(_depth_label(total))
            if depth != 1 or not issubclass(exp_type, Exception):
                nontrivial = True
            stage, err = _check_record(info, exp_type, exp_args, None, where,
                                       True)
            if err:
                return err
            chain = stage.chain
            err = _check_shape(chain, total, where)
            if err:
                return err
            # the frames below the loop are ours: task, raise_at, c12_rec...
            names = ['task', 'raise_at'] + \
                [T.raising_name(depth)] * (BOUND + 5)
            for j, c in enumerate(chain[1:]):
                if c[3]:
                    break
                if depth and j >= depth + 1:
                    break
                if c[0] != T.FILE or c[1] != names[j]:
                    return bad('C12/tb-not-prefix', '%s: entry %d is %r, the '
                               'frame there was %s in %s' % (
                                   where, j + 1, c[:3], names[j], T.FILE))
            needle = 'in %s\n' % T.raising_name(depth)
            if needle not in info.traceback or \
                    ('File "%s"' % T.FILE) not in info.traceback:
                return bad('C12/text-not-naming-frame', '%s: traceback text '
                           'lacks %r' % (where, needle))
            if exp_args is not None:
                last = traceback.format_exception_only(exp_type, exc)[-1]
                if not info.traceback.endswith(last):
                    return bad('C12/text-not-naming-frame', '%s: traceback '
                               'text does not end with %r' % (where, last))
        else:   # unserialisable result
            nest = len(beh['wrap'])
            labels.add('nest=%d' % nest)
            labels.add('leaf:' + beh['leaf'])
            if nest >= 1:
                nontrivial = True
            exp_type, exp_args = bp.MaybeEncodingError, None
            if type(info) is E.ExceptionInfo and \
                    info.type is not bp.MaybeEncodingError:
                return bad('C12/encoding-error-wrong-type', '%s: reported as '
                           '%r' % (where, info.type))
            stage, err = _check_record(info, exp_type, None, None, where,
                                       True)
            if err:
                return err
            err = _check_shape(stage.chain, len(stage.chain), where)
            if err:
                return err
            spelt = reprs.get(n)
            exc = _exc_of(info)
            if getattr(exc, 'value', None) != spelt:
                return bad('C12/encoding-error-not-naming-value', '%s: value '
                           '%.200r, the result was %.200r' % (
                               where, getattr(exc, 'value', None), spelt))
            if case.get('enc_args'):
                if not (len(exc.args) == 2 and exc.args[1] == spelt):
                    return bad('C12/encoding-error-args-changed', '%s: '
                               'MaybeEncodingError was built in the loop with '
                               'args (repr(exc), %.120r) and arrives with '
                               'args %.300r' % (where, spelt, exc.args))
                exp_args = exc.args
            else:
                labels.add('excluded:enc-args')

        err = _check_cause(info, where)
        if err:
            return err
        for trip in range(2, k + 1):
            w2 = '%s after trip %d' % (where, trip)
            info, err = _trip(info, w2)
            if err:
                return err
            stage, err = _check_record(info, exp_type, exp_args, stage, w2,
                                       trip == k)
            if err:
                return err
            if beh['kind'] == 'unp' and \
                    getattr(_exc_of(info), 'value', None) != reprs.get(n):
                return bad('C12/encoding-error-not-naming-value', '%s: value '
                           'changed' % w2)
    labels.add('tasks=%s' % ('1' if len(tasks) == 1 else
                             '2-4' if len(tasks) <= 4 else '5+'))
    return ok(nontrivial, sorted(labels))


PARTS = {'einfo': execute_einfo, 'workloop': execute_workloop}


def run(ctx):
    n = [0]

    def collect(fn):
        def wrapped(case):
            n[0] += 1
            if n[0] % 50 == 0:
                gc.collect()
            out = fn(case)
            if 'excluded:enc-args' in out.labels:
                ctx.excluded('MaybeEncodingError.args compared (finding '
                             'C12/encoding-error-args-changed)')
            return out
        return wrapped

    ctx.explore('einfo', einfo_cases(), collect(execute_einfo),
                n=ctx.pick(400, 7000), shrink_budget=120)
    ctx.explore('workloop', workloop_cases(ctx.pick(8, 14)),
                collect(execute_workloop), n=ctx.pick(200, 3000),
                shrink_budget=120)
