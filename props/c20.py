"""C20 - manager proxies behave like the local object; referents live as long
as proxies; the server only talks to holders of the key.

Parts
  hist        generated histories: create / operate / copy (pickle round trip) /
              hand over / drop / fork a client / let a client exit, issued by the
              main thread, 1-3 client threads and 0-2 forked client processes
              under a harness-owned (serial) schedule.  Every operation is also
              performed on a local model object (differential, exceptions
              included); after every lifecycle step the server's object count
              must equal the model's count of referents with >=1 live proxy.
  conc        N = threads + forked processes clients x M rounds of single
              operations at the same time; exactly N x M effects afterwards.
  registered  the other registered types (Event, Semaphore, BoundedSemaphore,
              RLock, Condition, Barrier, JoinableQueue, Pool incl. AsyncResult
              and Iterator proxies), two client threads, differential.
  auth        clients presenting generated wrong keys (or none) never get a
              request served; the right key does.
"""
import array
import atexit
import copy
import gc
import hmac
import os
import queue
import tempfile
import threading
import time
import warnings

from hypothesis import strategies as st

from engines import targets_c20 as T
from vlib.core import HarnessError, bad, inconclusive, ok

LEVEL = 'exploration'
RULE = ('affine: RLock / Condition proxies used by a forked child (inherited or in its Process args) whose script of acquire / release / notify / build-another-proxy / drop-it steps is replayed on a local threading object; non-trivial when another proxy is dropped while the lock is held. '
        'shared: histories of get/copy/append/read/drop/forked-client steps over '
        'referents that several proxies share through a registered callable (the '
        'remote-manager pattern); non-trivial when one of several proxies to the '
        'same referent is dropped or a client uses it while another proxy lives. '
        'hist: Hypothesis lists of 6-40 steps [new type | op actor slot '
        'method args | copy | hand src->dst | drop | drop-all-others | fork | '
        'exit] with '
        'index-modulo addressing over main thread, 1-3 client threads, 0-2 '
        'forked clients and 7 referent types; non-trivial when the referent '
        'raised at least once, or a lifecycle step changed a reference count '
        'from another process (fork while proxies exist, copy/receive/drop in a '
        'forked client, client exit while holding). conc: 1-3 threads + 0-2 '
        'forked processes (N>=2) x M rounds over a generated subset of 7 '
        'operation kinds; always >=2 concurrent clients, non-trivial when all '
        'clients completed. registered: one registered type per case, up to 25 '
        'ops from two client threads; non-trivial when the referent raised or '
        'both clients operated or a Pool call went through a result proxy. '
        'auth: 1-6 attempts (Client / manager.connect / proxy / raw protocol '
        'pressing on after FAILURE / no key) with generated wrong keys; '
        'non-trivial when >=1 wrong key was rejected and the right-key control '
        'was served. Distinct = distinct canonical JSON of the case.')
ASSUMPTIONS = [
    'one SyncManager (default authkey of the shard process) serves a batch of '
    'up to 60 cases; every case starts from and must return to 0 shared '
    'objects; the manager is restarted after any violation',
    'clients act one at a time in parts hist/registered (harness-owned '
    'schedule); concurrency is exercised in part conc only, under whatever '
    'interleaving the OS produces',
    'a proxy is handed over as pickled bytes and the sender keeps its own '
    'proxy until the receiver has rebuilt it (a pickle in transit is not a '
    'proxy)',
    'forked clients exit normally (proxies released explicitly or by the exit '
    'finalizers); killed clients are not generated',
    'dict views are compared as lists (managers.py registers them to travel as '
    'lists); DictProxy.has_key and proxies nested inside referents are not '
    'generated (DESIGN scoping)',
    'blocking calls that would never return on the local object either '
    '(acquire on a held lock, get on an empty queue, join with unfinished '
    'tasks) are replaced by their non-blocking / 20 ms-timeout variants',
    'a "wrong key" is one that differs from the manager\'s key as an HMAC-MD5 '
    'key (key + zero bytes is the same HMAC key by construction of HMAC and '
    'is accepted; not counted as a defect)',
    'sensitivity: 8/8 hand-written mutants (mutants/C20-*.patch) are killed by '
    'the quick tier at seed 1 on a tree where the IteratorProxy._exposed typo '
    'is repaired (on the unrepaired tree every run already stops at the '
    'Iterator regression replay)',
    'Pool referents: 1-2 workers, no timeouts / maxtasksperchild, failing '
    'tasks all raise the same exception, no chunked imap; the reference is a '
    'local billiard Pool; the Pool referent is never asked to terminate '
    '(terminate() can block for ever on this tree), its server is killed',
]
SHARDS = {'quick': 8, 'thorough': 16}
WALL_LIMIT = {'quick': 1500, 'thorough': 5400}

warnings.filterwarnings('ignore', category=DeprecationWarning,
                        message='.*fork.*')

BATCH = 60
REPLY_TIMEOUT = 90          # s; a silent client makes the case inconclusive


class _Stuck(Exception):
    pass


# ---------------------------------------------------------------------------
# the manager shared by a batch of cases
# ---------------------------------------------------------------------------

_M = {'mgr': None, 'pid': None, 'cases': 0, 'dirty': False, 'started': 0,
      'dir': None}


def _descendants(pid):
    """pids of all live descendants of ``pid`` (children first)"""
    kids = {}
    for name in os.listdir('/proc'):
        if name.isdigit():
            try:
                with open('/proc/%s/stat' % name) as f:
                    rest = f.read().rsplit(')', 1)[1].split()
                kids.setdefault(int(rest[1]), []).append(int(name))
            except (OSError, IndexError, ValueError):
                pass
    out, todo = [], [pid]
    while todo:
        for k in kids.get(todo.pop(), []):
            out.append(k)
            todo.append(k)
    return out


def _shutdown_manager(hard=False):
    """Stop the server.  ``hard``: the server owns a Pool whose terminate()
    may never return (pool defects outside this property), so the server and
    everything below it is killed instead of asked."""
    import shutil
    m, _M['mgr'] = _M['mgr'], None
    if m is None or _M['pid'] != os.getpid():
        return
    proc = m._process
    scratch, _M['dir'] = _M['dir'], None
    below = _descendants(proc.pid) if proc is not None else []
    try:
        if hard and proc is not None:
            for pid in [proc.pid] + below:
                try:
                    os.kill(pid, 9)
                except OSError:
                    pass
            proc.join(10)
        m.shutdown()
    finally:
        if proc is not None and proc.is_alive():
            proc.terminate()
            proc.join(5)
            if proc.is_alive():
                os.kill(proc.pid, 9)
                proc.join(5)
        for pid in below:                 # nothing the server forked survives
            try:
                os.kill(pid, 9)
            except OSError:
                pass
        if scratch:
            shutil.rmtree(scratch, ignore_errors=True)


atexit.register(_shutdown_manager)


def _manager():
    from billiard.managers import SyncManager
    if (_M['mgr'] is None or _M['pid'] != os.getpid() or _M['dirty']
            or _M['cases'] >= BATCH):
        _shutdown_manager()
        gc.unfreeze()           # see _fork_prepare; a full collection per batch
        gc.collect()
        # the listening socket lives in a directory of ours (billiard's own
        # per-process temp dir would be left behind by a killed server)
        scratch = tempfile.mkdtemp(prefix='c20-')
        m = SyncManager(address=os.path.join(scratch, 'm'))
        m.start(T.die_with_parent)
        _M.update(mgr=m, pid=os.getpid(), cases=0, dirty=False,
                  started=_M['started'] + 1, dir=scratch)
    _M['cases'] += 1
    m = _M['mgr']
    if m._number_of_objects() != 0:      # leftovers of an earlier case
        _M['dirty'] = True
        return _manager()
    return m


def _finish(out):
    if out.violated or out.inconclusive:
        _M['dirty'] = True
    return out


# ---------------------------------------------------------------------------
# client actors
# ---------------------------------------------------------------------------

def _fork_prepare():
    """Collect, then park every existing object in the permanent generation:
    later gc.collect() calls (parent and child) then leave the shared
    copy-on-write pages alone instead of copying the whole heap."""
    gc.collect()
    gc.freeze()


class _ThreadActor:
    """A client thread executing callables handed to it, one at a time."""
    kind = 'thread'

    def __init__(self):
        self.inq = queue.Queue()
        self.outq = queue.Queue()
        self.t = threading.Thread(target=self._loop, daemon=True)
        self.t.start()

    def _loop(self):
        while True:
            fn = self.inq.get()
            if fn is None:
                break
            try:
                res = ('ok', fn())
            except BaseException as exc:   # a bug of the harness, not a finding
                res = ('err', '%s: %r' % (type(exc).__name__, exc))
            fn = None
            self.outq.put(res)
            res = None

    def start_call(self, fn):
        self.inq.put(fn)

    def result(self, timeout=REPLY_TIMEOUT):
        try:
            kind, val = self.outq.get(timeout=timeout)
        except queue.Empty:
            raise _Stuck('client thread silent for %ss' % timeout)
        if kind == 'err':
            raise HarnessError('client thread: ' + val)
        return val

    def run(self, fn):
        self.start_call(fn)
        fn = None
        return self.result()

    def stop(self):
        self.inq.put(None)
        self.t.join(10)


class _ProcActor:
    """A forked billiard Process running targets_c20.hist_child."""
    kind = 'proc'

    def __init__(self, state):
        import billiard
        ctx = billiard.get_context('fork')
        self.conn, child_conn = billiard.Pipe()
        state.inherited_conns.append(self.conn)
        self.proc = ctx.Process(target=T.hist_child, args=(child_conn, state))
        self.proc.daemon = True
        _fork_prepare()
        self.proc.start()
        child_conn.close()

    def wait_ready(self):
        if self.cmd(None, send=False) != 'ready':
            raise HarnessError('forked client did not report ready')

    def cmd(self, cmd, send=True):
        if send:
            self.conn.send(cmd)
        if not self.conn.poll(REPLY_TIMEOUT):
            raise _Stuck('forked client silent for %ss' % REPLY_TIMEOUT)
        return self.conn.recv()

    def reap(self, timeout=30):
        self.proc.join(timeout)
        stuck = self.proc.is_alive()
        if stuck:
            os.kill(self.proc.pid, 9)
            self.proc.join(10)
        self.conn.close()
        return not stuck


class _State:
    """What a forked client inherits: every in-process slot table (so that it
    can release what it is not meant to hold) and the parent's pipe ends."""

    def __init__(self, ntables):
        self.tables = [[] for _ in range(ntables)]
        self.inherited_conns = []


# ---------------------------------------------------------------------------
# generated values and the per-type operation tables
# ---------------------------------------------------------------------------

_SCALAR = st.one_of(
    st.integers(-3, 9), st.integers(-3, 9),
    st.sampled_from(['a', 'b', '', 'k', 'zz']),
    st.none(), st.booleans(),
    st.sampled_from([0.5, -1.25, 2.0, 1e300]),
)
_VAL = st.one_of(
    _SCALAR, _SCALAR,
    st.lists(_SCALAR, max_size=3),
    st.dictionaries(st.sampled_from(['a', 'b', 'q']), st.integers(0, 5),
                    max_size=2),
)

_KEYS = ['a', 'b', 'c', 0, 1, (1, 2), None, 'k']
_NAMES = ['x', 'y', 'zed', 'value']


def _vlist(v, i):
    return list(v) if isinstance(v, list) else [v, i]


def _present(m, i, default):
    seq = list(m)
    return seq[i % len(seq)] if seq else default


def _grow(m, i):
    n = i % 4 - 1
    return n if len(m) * max(n, 1) <= 200 else 1


def _M_(name, *args, **kwargs):
    return ['m', name, tuple(args), kwargs]


_LIST = [
    lambda m, i, v: _M_('append', v),
    lambda m, i, v: _M_('extend', _vlist(v, i)),
    lambda m, i, v: _M_('insert', i, v),
    lambda m, i, v: _M_('pop'),
    lambda m, i, v: _M_('pop', i),
    lambda m, i, v: _M_('remove', v),
    lambda m, i, v: _M_('remove', _present(m, i, v)),
    lambda m, i, v: _M_('index', v),
    lambda m, i, v: _M_('index', _present(m, i, v)),
    lambda m, i, v: _M_('count', v),
    lambda m, i, v: ['getitem', i],
    lambda m, i, v: ['getitem', slice(i, i + 2)],
    lambda m, i, v: ['getitem', slice(None, None, -1)],
    lambda m, i, v: ['setitem', i, v],
    lambda m, i, v: ['setitem', slice(i, i + 1), _vlist(v, i)],
    lambda m, i, v: ['delitem', i],
    lambda m, i, v: ['delitem', slice(i, i + 2)],
    lambda m, i, v: ['len'],
    lambda m, i, v: ['contains', v],
    lambda m, i, v: ['contains', _present(m, i, v)],
    lambda m, i, v: ['add', _vlist(v, i)],
    lambda m, i, v: ['mul', _grow(m, i)],
    lambda m, i, v: ['rmul', _grow(m, i)],
    lambda m, i, v: ['imul', _grow(m, i)],
    lambda m, i, v: ['imul', 2 if 0 < len(m) <= 100 else 0],
    lambda m, i, v: ['iadd', _vlist(v, i)],
    lambda m, i, v: ['iadd', [i, v]],
    lambda m, i, v: _M_('reverse'),
    lambda m, i, v: _M_('sort'),
    lambda m, i, v: _M_('sort', reverse=True),
    lambda m, i, v: ['reversed'],
    lambda m, i, v: ['iter'],
    lambda m, i, v: ['str'],
    lambda m, i, v: ['deepcopy'],
]

_DICT = [
    lambda m, i, v: ['setitem', _KEYS[i % 8], v],
    lambda m, i, v: ['setitem', _KEYS[i % 8], v],
    lambda m, i, v: ['getitem', _KEYS[i % 8]],
    lambda m, i, v: ['getitem', _present(m, i, 'a')],
    lambda m, i, v: ['delitem', _KEYS[i % 8]],
    lambda m, i, v: ['delitem', _present(m, i, 'a')],
    lambda m, i, v: ['contains', _KEYS[i % 8]],
    lambda m, i, v: ['len'],
    lambda m, i, v: _M_('get', _KEYS[i % 8]),
    lambda m, i, v: _M_('get', _KEYS[i % 8], v),
    lambda m, i, v: _M_('pop', _KEYS[i % 8]),
    lambda m, i, v: _M_('pop', _present(m, i, 'a')),
    lambda m, i, v: _M_('pop', _KEYS[i % 8], v),
    lambda m, i, v: _M_('popitem'),
    lambda m, i, v: _M_('setdefault', _KEYS[i % 8]),
    lambda m, i, v: _M_('setdefault', _KEYS[i % 8], v),
    lambda m, i, v: _M_('update', v if isinstance(v, dict) else {'u': v}),
    lambda m, i, v: _M_('update', [[_KEYS[i % 8], v], ['w', i]]),
    lambda m, i, v: _M_('update', kw=v),
    lambda m, i, v: _M_('keys'),
    lambda m, i, v: _M_('values'),
    lambda m, i, v: _M_('items'),
    lambda m, i, v: _M_('copy'),
    lambda m, i, v: _M_('clear'),
    lambda m, i, v: ['setitem', [1, i], v],          # unhashable key
    lambda m, i, v: ['getitem', {'a': 1}],           # unhashable key
    lambda m, i, v: ['str'],
    lambda m, i, v: ['deepcopy'],
]

_NAMESPACE = [
    lambda m, i, v: ['setattr', _NAMES[i % 4], v],
    lambda m, i, v: ['setattr', _NAMES[i % 4], v],
    lambda m, i, v: ['getattr', _NAMES[i % 4]],
    lambda m, i, v: ['getattr', _present(sorted(m.__dict__), i, 'x')],
    lambda m, i, v: ['delattr', _NAMES[i % 4]],
    lambda m, i, v: ['str'],
    lambda m, i, v: ['deepcopy'],
]

_VALUE = [
    lambda m, i, v: _M_('get'),
    lambda m, i, v: _M_('set', v),
    lambda m, i, v: ['getattr', 'value'],
    lambda m, i, v: ['setattr', 'value', v],
    lambda m, i, v: ['str'],
    lambda m, i, v: ['deepcopy'],
]


def _intish(v, i):
    return v if isinstance(v, int) and not isinstance(v, bool) else i


_ARRAY = [
    lambda m, i, v: ['len'],
    lambda m, i, v: ['getitem', i],
    lambda m, i, v: ['getitem', i % len(m) if len(m) else 0],
    lambda m, i, v: ['getitem', slice(i, i + 2)],
    lambda m, i, v: ['setitem', i, _intish(v, i)],
    lambda m, i, v: ['setitem', i % len(m) if len(m) else 0, _intish(v, i)],
    lambda m, i, v: ['setitem', i % len(m) if len(m) else 0, v],   # maybe TypeError
    lambda m, i, v: ['setitem', i % len(m) if len(m) else 0, 2 ** 40],
    lambda m, i, v: ['setitem', slice(i, i + 1),
                     array.array(m.typecode, [7, 8][:i % 3])],
    lambda m, i, v: ['setitem', slice(0, 1), [1]],                  # TypeError
    lambda m, i, v: ['iter'],
    lambda m, i, v: ['str'],
    lambda m, i, v: ['deepcopy'],
]

_LOCK = [
    lambda m, i, v: _M_('acquire') if not m.locked() else _M_('acquire', False),
    lambda m, i, v: _M_('acquire', False),
    lambda m, i, v: _M_('acquire', blocking=False),
    lambda m, i, v: _M_('acquire', True, 0.02),
    lambda m, i, v: _M_('acquire', False, 0.02),                    # ValueError
    lambda m, i, v: _M_('release'),
    lambda m, i, v: _M_('release'),
    lambda m, i, v: ['with'] if not m.locked() else _M_('release'),
]

_QUEUE = [
    lambda m, i, v: _M_('put', v) if not m.full() else _M_('put', v, True, 0.02),
    lambda m, i, v: _M_('put', v) if not m.full() else _M_('put', v, True, 0.02),
    lambda m, i, v: _M_('put_nowait', v),
    lambda m, i, v: _M_('put', v, block=False),
    lambda m, i, v: _M_('get') if not m.empty() else _M_('get', True, 0.02),
    lambda m, i, v: _M_('get_nowait'),
    lambda m, i, v: (_M_('get', timeout=5) if not m.empty()
                     else _M_('get', timeout=0.02)),
    lambda m, i, v: _M_('qsize'),
    lambda m, i, v: _M_('empty'),
    lambda m, i, v: _M_('full'),
    lambda m, i, v: _M_('task_done'),
    lambda m, i, v: (_M_('join') if m.unfinished_tasks == 0
                     else _M_('task_done')),
]

_TABLES = {'list': _LIST, 'dict': _DICT, 'Namespace': _NAMESPACE,
           'Value': _VALUE, 'Array': _ARRAY, 'Lock': _LOCK, 'Queue': _QUEUE,
           'JoinableQueue': _QUEUE}
_TYPES = ['list', 'dict', 'Namespace', 'Value', 'Array', 'Lock', 'Queue']


def _opname(call):
    return call[1].strip('_') if call[0] == 'm' else call[0]


def _create(mgr, tname, i, v):
    """(proxy, local model) of a fresh referent"""
    from billiard import managers
    if tname == 'list':
        init = _vlist(v, i)
        return mgr.list(copy.deepcopy(init)), list(init)
    if tname == 'dict':
        init = dict(v) if isinstance(v, dict) else ({'a': v} if i % 2 else {})
        return mgr.dict(copy.deepcopy(init)), dict(init)
    if tname == 'Namespace':
        return mgr.Namespace(x=copy.deepcopy(v)), managers.Namespace(x=v)
    if tname == 'Value':
        return mgr.Value('i', copy.deepcopy(v)), managers.Value('i', v)
    if tname == 'Array':
        tc = 'd' if i % 5 == 4 else 'i'
        init = list(range(i % 5))
        return mgr.Array(tc, init), array.array(tc, init)
    if tname == 'Lock':
        return mgr.Lock(), threading.Lock()
    if tname in ('Queue', 'JoinableQueue'):
        size = 2 if i % 2 else 0
        return getattr(mgr, tname)(size), queue.Queue(size)
    raise ValueError(tname)


def _release_local(model):
    """let a local model object go without leaving a held lock behind"""
    if isinstance(model, type(threading.Lock())) and model.locked():
        model.release()


# ---------------------------------------------------------------------------
# part hist
# ---------------------------------------------------------------------------

def _sel(n):
    return st.sampled_from(list(range(n)))


_A = _sel(12)
_I = st.integers(-4, 8)


def _weighted(*pairs):
    """one_of drops repeated strategy objects, so weights need fresh ones"""
    return st.one_of(*[make() for make, w in pairs for _ in range(w)])


_STEP = _weighted(
    (lambda: st.tuples(st.just('new'), _sel(7), _I, _VAL), 2),
    (lambda: st.tuples(st.just('op'), _A, _A, _sel(64), _I, _VAL), 9),
    (lambda: st.tuples(st.just('copy'), _A, _A), 2),
    (lambda: st.tuples(st.just('hand'), _A, _A, _A), 2),
    (lambda: st.tuples(st.just('drop'), _A, _A), 3),
    (lambda: st.tuples(st.just('only'), _A, _A), 1),
    (lambda: st.tuples(st.just('fork'), st.integers(0, 1)), 1),
    (lambda: st.tuples(st.just('exit'), st.integers(0, 3), st.booleans()), 1),
)


def hist_cases():
    steps = st.integers(6, 40).flatmap(
        lambda n: st.lists(_STEP.map(list), min_size=n, max_size=n))
    return st.fixed_dictionaries({'threads': st.sampled_from([2, 1, 3]),
                                  'steps': steps})


class _Hist:
    MAX_PROCS = 2

    def __init__(self, mgr, nthreads):
        self.mgr = mgr
        self.state = _State(1 + nthreads)
        self.actors = ['main'] + [_ThreadActor() for _ in range(nthreads)]
        self.nthreads = nthreads
        self.holds = [[] for _ in self.actors]     # rid per slot, per actor
        self.refs = {}                             # rid -> [type, model]
        self.next_rid = 0
        self.labels = set()
        self.nontrivial = False
        self.forks = 0

    # -- plumbing ---------------------------------------------------------
    def do(self, a, cmd):
        actor = self.actors[a]
        if actor == 'main':
            return T.run_cmd(self.state.tables[0], cmd)
        if actor.kind == 'thread':
            table = self.state.tables[a]
            return actor.run(lambda: T.run_cmd(table, cmd))
        return actor.cmd(cmd)

    def kind(self, a):
        actor = self.actors[a]
        return 'main' if actor == 'main' else actor.kind

    def expected(self):
        return len(set(r for h in self.holds for r in h))

    def check_count(self, after):
        n = self.mgr._number_of_objects()
        exp = self.expected()
        if n < exp:
            return bad('C20/hist/disposed-early',
                       'after %s: server holds %d objects, %d referents still '
                       'have a live proxy' % (after, n, exp))
        if n > exp:
            return bad('C20/hist/not-disposed',
                       'after %s: server holds %d objects, only %d referents '
                       'have a live proxy' % (after, n, exp))
        return None

    def forget(self):
        for rid in list(self.refs):
            if not any(rid in h for h in self.holds):
                _release_local(self.refs.pop(rid)[1])

    # -- steps -------------------------------------------------------------
    def step_new(self, tsel, i, v):
        tname = _TYPES[tsel % len(_TYPES)]
        proxy, model = _create(self.mgr, tname, i, v)
        self.state.tables[0].append(proxy)
        proxy = None
        rid = self.next_rid
        self.next_rid += 1
        self.refs[rid] = [tname, model]
        self.holds[0].append(rid)
        self.labels.add('new:' + tname)
        return self.check_count('create %s' % tname)

    def step_op(self, a, s, msel, i, v):
        rid = self.holds[a][s]
        tname, model = self.refs[rid]
        table = _TABLES[tname]
        call = table[msel % len(table)](model, i, v)
        got = self.do(a, ['op', s, copy.deepcopy(call)])
        want, repl = T.surface(model, call)
        if repl is not None:
            self.refs[rid][1] = repl
        self.labels.add('op:%s.%s' % (tname, _opname(call)))
        self.labels.add('op@' + self.kind(a))
        if want[0] == 'exc':
            self.labels.add('raises:' + want[1].split('.')[-1])
            self.nontrivial = True
        if got != want:
            return bad('C20/hist/%s-%s' % (tname, _opname(call)),
                       '%s client, %s proxy, call %r: proxy gave %r, the local '
                       'object gives %r' % (self.kind(a), tname, call, got, want))
        return None

    def _lifecycle_failed(self, what, a, res):
        return bad('C20/hist/%s-failed' % what,
                   '%s in %s client raised %r although the source proxy is '
                   'alive' % (what, self.kind(a), res))

    def step_copy(self, a, s):
        res = self.do(a, ['copy', s])
        if res[0] != 'ret':
            return self._lifecycle_failed('copy', a, res)
        self.holds[a].append(self.holds[a][s])
        self.labels.add('copy@' + self.kind(a))
        if self.kind(a) == 'proc':
            self.nontrivial = True
            self.labels.add('xproc-refchange')
        return self.check_count('copy')

    def step_hand(self, a, s, b):
        if a == b:
            return self.step_copy(a, s)
        res = self.do(a, ['dumps', s])
        if res[0] != 'bytes':
            return self._lifecycle_failed('pickle', a, res)
        res = self.do(b, ['loads', res[1]])
        if res[0] != 'ret':
            return self._lifecycle_failed('receive', b, res)
        self.holds[b].append(self.holds[a][s])
        self.labels.add('hand:%s>%s' % (self.kind(a), self.kind(b)))
        if self.kind(b) == 'proc':
            self.nontrivial = True
            self.labels.add('xproc-refchange')
        return self.check_count('hand-over')

    def step_drop(self, a, s):
        self.do(a, ['drop', s])
        rid = self.holds[a].pop(s)
        last = not any(rid in h for h in self.holds)
        self.labels.add('drop@' + self.kind(a))
        if last:
            self.labels.add('last-drop@' + self.kind(a))
        if self.kind(a) == 'proc' or (
                not last and not any(rid in self.holds[k] for k in
                                     range(1 + self.nthreads))):
            # a forked client released one, or is now the only holder
            self.nontrivial = True
            self.labels.add('xproc-refchange')
        self.forget()
        if self.kind(a) == 'main':
            gc.collect()
        return self.check_count('drop')

    def step_only(self, a, s):
        """every *other* proxy of this referent is dropped, one by one: the
        addressed client becomes its sole holder"""
        rid = self.holds[a][s]
        for b in range(len(self.actors) - 1, -1, -1):
            for k in range(len(self.holds[b]) - 1, -1, -1):
                if self.holds[b][k] == rid and (b, k) != (a, s):
                    out = self.step_drop(b, k)
                    if out is not None:
                        return out
                    if b == a and k < s:
                        s -= 1
        self.labels.add('sole-holder@' + self.kind(a))
        return None

    def step_fork(self):
        nproc = len(self.actors) - 1 - self.nthreads
        if nproc >= self.MAX_PROCS or self.forks >= 4:
            self.labels.add('skipped')
            return None
        self.forks += 1
        actor = _ProcActor(self.state)
        self.actors.append(actor)
        self.holds.append(list(self.holds[0]))
        actor.wait_ready()
        self.labels.add('fork')
        if self.holds[0]:
            self.nontrivial = True
            self.labels.add('fork-inherits')
            self.labels.add('xproc-refchange')
        return self.check_count('fork')

    def step_exit(self, sel, explicit):
        first = 1 + self.nthreads
        nproc = len(self.actors) - first
        if not nproc:
            self.labels.add('skipped')
            return None
        a = first + sel % nproc
        actor = self.actors[a]
        actor.cmd(['exit', bool(explicit)])
        clean = actor.reap()
        self.state.inherited_conns.remove(actor.conn)
        held = self.holds[a]
        del self.actors[a], self.holds[a]
        if not clean:
            raise _Stuck('forked client did not exit')
        self.labels.add('exit:' + ('explicit' if explicit else 'finalizers'))
        if held:
            self.nontrivial = True
            self.labels.add('exit-holding')
            self.labels.add('xproc-refchange')
        self.forget()
        return self.check_count('client exit (%s release)' % (
            'explicit' if explicit else 'exit-time'))

    def run(self, steps):
        for step in steps:
            kind = step[0]
            n = len(self.actors)
            if kind == 'new':
                out = self.step_new(step[1], step[2], step[3])
            elif kind == 'fork':
                out = self.step_fork()
            elif kind == 'exit':
                out = self.step_exit(step[1], step[2])
            else:
                a = step[1] % n
                if not self.holds[a]:
                    # nothing to address: give this client something instead
                    if not self.holds[0]:
                        if kind == 'op':
                            out = self.step_new(step[3], step[4], step[5])
                        else:
                            self.labels.add('skipped')
                            out = None
                    else:
                        out = self.step_hand(0, step[2] % len(self.holds[0]), a)
                else:
                    s = step[2] % len(self.holds[a])
                    if kind == 'op':
                        out = self.step_op(a, s, step[3], step[4], step[5])
                    elif kind == 'copy':
                        out = self.step_copy(a, s)
                    elif kind == 'hand':
                        out = self.step_hand(a, s, step[3] % n)
                    elif kind == 'drop':
                        out = self.step_drop(a, s)
                    elif kind == 'only':
                        out = self.step_only(a, s)
                    else:
                        raise ValueError('unknown step %r' % (kind,))
            if out is not None:
                return out
        return None

    def final_state(self):
        """every surviving referent still shows the model's state"""
        for rid, (tname, model) in sorted(self.refs.items()):
            where = [(a, h.index(rid)) for a, h in enumerate(self.holds)
                     if rid in h]
            if not where:
                continue
            a, s = where[-1]
            if tname in ('Lock',):
                call = _M_('acquire', False)
            elif tname in ('Queue', 'JoinableQueue'):
                call = _M_('qsize')
            else:
                call = ['str']
            got = self.do(a, ['op', s, call])
            want, _ = T.surface(model, call)
            if got != want:
                return bad('C20/hist/%s-final-state' % tname,
                           'at the end the %s referent shows %r through a %s '
                           "client's proxy, the local object %r"
                           % (tname, got, self.kind(a), want))
        return None

    def teardown(self):
        """release everything, in stages; the last release disposes"""
        while len(self.actors) > 1 + self.nthreads:
            out = self.step_exit(0, len(self.actors) % 2)
            if out is not None:
                return out
        for a in range(len(self.actors) - 1, -1, -1):
            if self.holds[a]:
                self.do(a, ['clear'])
                self.holds[a] = []
                self.forget()
                gc.collect()
                out = self.check_count('release of all proxies of the %s client'
                                       % self.kind(a))
                if out is not None:
                    return out
        return self.check_count('the last release')

    def cleanup(self):
        for actor in self.actors[1 + self.nthreads:]:
            try:
                os.kill(actor.proc.pid, 9)
            except OSError:
                pass
            actor.reap(10)
        for t in self.state.tables:
            del t[:]
        for actor in self.actors[1:1 + self.nthreads]:
            actor.stop()
        for tname, model in self.refs.values():
            _release_local(model)
        self.refs.clear()
        gc.collect()


def execute_hist(case):
    mgr = _manager()
    h = _Hist(mgr, max(1, min(3, int(case['threads']))))
    try:
        out = h.run(case['steps']) or h.final_state() or h.teardown()
    except _Stuck as exc:
        out = inconclusive(str(exc))
    finally:
        h.cleanup()
    if out is None:
        labels = sorted(h.labels) + ['threads=%d' % h.nthreads]
        out = ok(h.nontrivial, labels)
    return _finish(out)


# ---------------------------------------------------------------------------
# part conc
# ---------------------------------------------------------------------------

_KINDS = ['append', 'setitem', 'put', 'rmw', 'pop', 'dpop', 'setdefault']


def conc_cases():
    return st.fixed_dictionaries({
        # (Hypothesis always starts with the first alternatives: make that
        # case a useful one - 2 threads + 1 process, 3 kinds)
        'threads': st.sampled_from([2, 1, 3]),
        'procs': st.sampled_from([1, 0, 2]),
        'm': st.integers(3, 25),
        'kinds': st.lists(st.sampled_from(_KINDS), min_size=3, max_size=7,
                          unique=True),
        'lockstyle': st.integers(0, 1),
    })


def execute_conc(case):
    import billiard
    mgr = _manager()
    nt, npr = int(case['threads']), int(case['procs'])
    if nt + npr < 2:
        nt = 2 - npr
    n, m = nt + npr, int(case['m'])
    kinds = [k for k in case['kinds'] if k in _KINDS] or ['append']
    lockstyle = int(case['lockstyle'])
    px = {
        'L': mgr.list(), 'D': mgr.dict(), 'Q': mgr.Queue(), 'V': mgr.Value('i', 0),
        'K': mgr.Lock(), 'S': mgr.list(list(range(n * m))),
        'P': mgr.dict(dict((j, 'v%d' % j) for j in range(m))), 'W': mgr.dict(),
    }
    ctx = billiard.get_context('fork')
    procs, threads, obs = [], [], {}
    go = threading.Event()
    out = None
    try:
        for cid in range(npr):
            a, b = billiard.Pipe()
            p = ctx.Process(target=T.conc_child,
                            args=(b, px, cid, m, kinds, lockstyle))
            p.daemon = True
            _fork_prepare()
            p.start()
            b.close()
            procs.append((cid, p, a))

        def client(cid):
            go.wait()
            obs[cid] = T.conc_script(px, cid, m, kinds, lockstyle)

        for cid in range(npr, n):
            t = threading.Thread(target=client, args=(cid,), daemon=True)
            t.start()
            threads.append(t)
        for cid, p, a in procs:
            if not a.poll(REPLY_TIMEOUT) or a.recv() != 'ready':
                raise _Stuck('forked client not ready')
        for cid, p, a in procs:
            a.send('go')
        go.set()
        for t in threads:
            t.join(REPLY_TIMEOUT)
            if t.is_alive():
                raise _Stuck('client thread did not finish')
        for cid, p, a in procs:
            if not a.poll(REPLY_TIMEOUT):
                raise _Stuck('forked client did not finish')
            obs[cid] = a.recv()
        for cid, p, a in procs:
            p.join(30)
            if p.is_alive():
                raise _Stuck('forked client did not exit')
        out = _conc_oracle(px, obs, n, m, kinds)
        if out is None:
            px.clear()
            gc.collect()
            left = mgr._number_of_objects()
            if left:
                out = bad('C20/conc/not-disposed', '%d objects left after all '
                          'clients exited and all proxies were released' % left)
    except _Stuck as exc:
        out = inconclusive(str(exc))
    finally:
        go.set()
        for cid, p, a in procs:
            if p.is_alive():
                os.kill(p.pid, 9)
            p.join(10)
            a.close()
        px.clear()
        obs.clear()
        gc.collect()
    if out is None:
        out = ok(True, ['threads=%d' % nt, 'procs=%d' % npr, 'clients=%d' % n]
                 + ['kind:' + k for k in kinds])
    return _finish(out)


def _conc_oracle(px, obs, n, m, kinds):
    for cid in sorted(obs):
        if obs[cid]['errors']:
            return bad('C20/conc/client-raised', 'client %d: %r'
                       % (cid, obs[cid]['errors'][0]))
    pairs = [[c, j] for c in range(n) for j in range(m)]
    if 'append' in kinds:
        got = px['L'][:]
        if sorted(got) != pairs:
            return bad('C20/conc/append-effects', '%d clients x %d appends left '
                       '%d elements (expected %d distinct)'
                       % (n, m, len(got), n * m))
        for c in range(n):
            if [x for x in got if x[0] == c] != [[c, j] for j in range(m)]:
                return bad('C20/conc/append-order', "client %d's appends are "
                           'not in its program order' % c)
    if 'setitem' in kinds:
        got = px['D'].copy()
        if got != dict(('%d:%d' % (c, j), j) for c, j in pairs):
            return bad('C20/conc/setitem-effects', '%d clients x %d distinct '
                       'keys left %d items' % (n, m, len(got)))
    if 'put' in kinds:
        size = px['Q'].qsize()
        got = []
        try:
            for _ in range(n * m):
                got.append(px['Q'].get_nowait())
        except queue.Empty:
            pass
        extra = T.outcome(px['Q'].get_nowait)
        if size != n * m or sorted(got) != pairs or extra[0] != 'exc':
            return bad('C20/conc/put-effects', '%d clients x %d puts: qsize %d, '
                       '%d items drained, then %r' % (n, m, size, len(got), extra))
        for c in range(n):
            if [x for x in got if x[0] == c] != [[c, j] for j in range(m)]:
                return bad('C20/conc/put-order', "client %d's items left the "
                           'queue out of order' % c)
    if 'rmw' in kinds:
        v = px['V'].value
        if v != n * m:
            return bad('C20/conc/lock-exclusion', '%d clients x %d increments '
                       'under the Lock proxy gave %r' % (n, m, v))
    if 'pop' in kinds:
        popped = [x for c in sorted(obs) for x in obs[c]['pop']]
        rest = px['S'][:]
        if sorted(popped) != list(range(n * m)) or rest:
            return bad('C20/conc/pop-effects', '%d pops returned %d distinct '
                       'values of %d, %d left' % (len(popped), len(set(popped)),
                                                  n * m, len(rest)))
    if 'dpop' in kinds:
        won = sorted(x for c in sorted(obs) for x in obs[c]['dpop'])
        if won != [[j, 'v%d' % j] for j in range(m)] or len(px['P']):
            return bad('C20/conc/dict-pop-effects', 'each of %d keys must be '
                       'popped by exactly one client; successes: %r' % (m, won))
    if 'setdefault' in kinds:
        final = px['W'].copy()
        for c in sorted(obs):
            for j, w in obs[c]['sd']:
                if final.get(j) != w:
                    return bad('C20/conc/setdefault-winner', 'client %d saw '
                               'winner %r for key %d, the dict holds %r'
                               % (c, w, j, final.get(j)))
        if sorted(final) != list(range(m)):
            return bad('C20/conc/setdefault-winner', 'keys %r' % sorted(final))
    return None


# ---------------------------------------------------------------------------
# part registered
# ---------------------------------------------------------------------------

_RTYPES = ['Event', 'Semaphore', 'BoundedSemaphore', 'RLock', 'Condition',
           'Barrier', 'JoinableQueue', 'Pool']
_ROP = st.tuples(_sel(2), _sel(64), _I, _VAL)


def registered_cases(pool=False):
    """Pool cases cost seconds (two pools are forked), the others
    milliseconds: they are drawn separately so that both get a known share"""
    ops = st.integers(10 if pool else 4, 25).flatmap(
        lambda n: st.lists(_ROP.map(list), min_size=n, max_size=n))
    types = st.just(len(_RTYPES) - 1) if pool else _sel(len(_RTYPES) - 1)
    return st.fixed_dictionaries({'type': types, 'init': _sel(6), 'ops': ops})


class _Owner:
    """who holds an RLock-like referent (tracked to avoid blocking calls)"""

    def __init__(self):
        self.client, self.depth = None, 0

    def free_for(self, c):
        return self.client in (None, c)

    def acquired(self, c):
        self.client, self.depth = c, self.depth + 1

    def released(self, c):
        if self.client == c:
            self.depth -= 1
            if not self.depth:
                self.client = None


def _reg_call(tname, local, owner, c, msel, i, v):
    """surface call for the other registered types, never one that blocks"""
    if tname == 'Event':
        return [
            _M_('is_set'), _M_('set'), _M_('clear'),
            _M_('wait') if local.is_set() else _M_('wait', 0.02),
            _M_('wait', 0.02),
        ][msel % 5]
    if tname in ('Semaphore', 'BoundedSemaphore'):
        avail = local._value > 0
        return [
            _M_('acquire') if avail else _M_('acquire', False),
            _M_('acquire', False),
            _M_('acquire', True, 0.02),
            _M_('release'), _M_('release'),
            ['with'] if avail else _M_('release'),
        ][msel % 6]
    if tname == 'RLock':
        free = owner.free_for(c)
        return [
            _M_('acquire') if free else _M_('acquire', False),
            _M_('acquire', False),
            _M_('acquire', True, 0.02),
            _M_('release'), _M_('release'),
            ['with'] if free else _M_('acquire', False),
        ][msel % 6]
    if tname == 'Condition':
        free = owner.free_for(c)
        return [
            _M_('acquire') if free else _M_('acquire', False),
            _M_('acquire', False),
            _M_('release'), _M_('release'),
            _M_('wait', 0.02),
            _M_('notify'), _M_('notify_all'),
            ['with'] if free else _M_('notify'),
            ['handshake'],
        ][msel % 9]
    if tname == 'Barrier':
        return [
            _M_('wait', 0.05), _M_('wait', 0.05),
            ['getattr', 'parties'], ['getattr', 'n_waiting'],
            ['getattr', 'broken'],
            _M_('abort'), _M_('reset'), _M_('reset'),
            ['both-wait'], ['both-wait'],
        ][msel % 10]
    if tname == 'JoinableQueue':
        return _QUEUE[msel % len(_QUEUE)](local, i, v)
    raise ValueError(tname)


def _track(tname, owner, c, call, want):
    """update the ownership model from what the *local* object answered"""
    if tname not in ('RLock', 'Condition') or call[0] != 'm':
        return
    if call[1] == 'acquire' and want == ['ret', ['bool', True]]:
        owner.acquired(c)
    if call[1] == 'release' and want[0] == 'ret':
        owner.released(c)


def _init_args(tname, init):
    if tname in ('Semaphore', 'BoundedSemaphore'):
        return (init % 3,)
    if tname == 'Barrier':
        return (1 + init % 2,)
    if tname == 'JoinableQueue':
        return (2 if init % 2 else 0,)
    return ()


_LOCAL = {'Event': threading.Event, 'Semaphore': threading.Semaphore,
          'BoundedSemaphore': threading.BoundedSemaphore,
          'RLock': threading.RLock, 'Condition': threading.Condition,
          'Barrier': threading.Barrier, 'JoinableQueue': queue.Queue}


def _handshake(obj, helper):
    """helper waits on the condition, this thread notifies; returns what
    wait() returned in the helper"""
    started = threading.Event()

    def waiter():
        with obj:
            started.set()
            return obj.wait(120)
    helper.start_call(lambda: T.outcome(waiter))
    if not started.wait(REPLY_TIMEOUT):
        raise _Stuck('condition waiter did not start')
    d = T.outcome(lambda: T._with(_Notify(obj)))
    return [d, helper.result()]


class _Notify:
    def __init__(self, cond):
        self.cond = cond

    def __enter__(self):
        self.cond.acquire()
        self.cond.notify()

    def __exit__(self, *exc):
        self.cond.release()


def _both_wait(obj, helper):
    """both clients wait on the barrier at the same time"""
    helper.start_call(lambda: T.outcome(lambda: obj.wait(120)))
    mine = T.outcome(lambda: obj.wait(120))
    return sorted([mine, helper.result()], key=repr)


def execute_registered(case):
    tname = _RTYPES[int(case['type']) % len(_RTYPES)]
    if tname == 'Pool':
        return _finish(_execute_pool(case))
    mgr = _manager()
    args = _init_args(tname, int(case['init']))
    box = [getattr(mgr, tname)(*args)]            # the only reference
    local = _LOCAL[tname](*args)
    helper = _ThreadActor()
    owner = _Owner()
    labels = {'type:' + tname}
    clients = set()
    raised = False
    out = None
    try:
        for c, msel, i, v in case['ops']:
            c = int(c) % 2
            call = _reg_call(tname, local, owner, c, msel, i, v)
            if call[0] in ('handshake', 'both-wait'):
                if not owner.free_for(None) or (
                        tname == 'Barrier' and local.parties != 2):
                    labels.add('skipped')
                    continue
                fn = _handshake if call[0] == 'handshake' else _both_wait
                got = fn(box[0], helper)
                want = fn(local, helper)
                clients.update((0, 1))
            else:
                def both(call=call):
                    return (T.surface(box[0], copy.deepcopy(call))[0],
                            T.surface(local, call)[0])
                got, want = both() if c == 0 else helper.run(both)
                _track(tname, owner, c, call, want)
                clients.add(c)
                if want[0] == 'exc':
                    raised = True
                    labels.add('raises:' + want[1].split('.')[-1])
            labels.add('op:%s.%s' % (tname, _opname(call)))
            if got != want:
                out = bad('C20/registered/%s-%s' % (tname, _opname(call)),
                          'client %d, %s proxy, call %r: proxy gave %r, the '
                          'local object gives %r' % (c, tname, call, got, want))
                break
        if out is None:
            del box[:]
            gc.collect()
            left = mgr._number_of_objects()
            if left:
                out = bad('C20/registered/not-disposed', '%d objects left after '
                          'the only %s proxy was released' % (left, tname))
    except _Stuck as exc:
        out = inconclusive(str(exc))
    finally:
        del box[:]
        helper.stop()
        if helper.t.is_alive():
            _M['dirty'] = True
        gc.collect()
    if out is None:
        if len(clients) == 2:
            labels.add('two-clients')
        out = ok(raised or len(clients) == 2, sorted(labels))
    return _finish(out)


def _pool_plan(msel, i, v):
    """(label, how to ask the proxy, local computation) for one Pool call"""
    fname = ['sq', 'div', 'abs', 'div'][msel % 4]
    f = T.FUNCS[fname]
    xs = [x for x in (_vlist(v, i) + [i, i + 1, 2])
          if isinstance(x, int) and not isinstance(x, bool)][:1 + i % 5]
    if fname == 'div' and msel % 8 >= 4:
        xs = [x or 3 for x in xs]                 # no failing element
    kind = ['apply', 'map', 'map-chunked', 'starmap', 'apply_async',
            'map_async', 'imap-list', 'imap-next', 'imap_unordered',
            'async-state'][(msel // 4) % 10]
    x0 = xs[0] if xs else 1
    pairs = [[x, x + 1] for x in xs]
    if kind == 'apply':
        return kind, 'Pool', (lambda p: p.apply(f, (x0,))), (lambda: f(x0))
    if kind == 'map':
        return kind, 'Pool', (lambda p: p.map(f, xs)), (lambda: list(map(f, xs)))
    if kind == 'map-chunked':
        return kind, 'Pool', (lambda p: p.map(f, xs, 2)), \
            (lambda: list(map(f, xs)))
    if kind == 'starmap':
        return kind, 'Pool', (lambda p: p.starmap(T.addmul, pairs)), \
            (lambda: [T.addmul(*q) for q in pairs])
    if kind == 'apply_async':
        return kind, 'AsyncResult', (lambda p: p.apply_async(f, (x0,)).get(60)), \
            (lambda: f(x0))
    if kind == 'map_async':
        return kind, 'AsyncResult', (lambda p: p.map_async(f, xs).get(60)), \
            (lambda: list(map(f, xs)))
    if kind == 'async-state':
        def remote(p):
            r = p.apply_async(f, (x0,))
            r.wait(60)
            return [r.ready(), r.successful()]

        def here():
            try:
                f(x0)
            except Exception:
                return [True, False]
            return [True, True]
        return kind, 'AsyncResult', remote, here
    if kind == 'imap-list':
        return kind, 'Iterator', (lambda p: list(p.imap(f, xs))), \
            (lambda: list(map(f, xs)))
    if kind == 'imap-next':
        def step(it):
            got = []
            for _ in range(len(xs) + 1):
                got.append(T.outcome(next, it))
                if got[-1][0] == 'exc':
                    break
            return got
        return kind, 'Iterator', (lambda p: step(p.imap(f, xs))), \
            (lambda: step(iter(map(f, xs))))
    return kind, 'Iterator', (lambda p: sorted(p.imap_unordered(f, xs))), \
        (lambda: sorted(map(f, xs)))


def _stop_local_pool(lp):
    """Pool.terminate() of the local reference pool, with a way out"""
    pids = [w.pid for w in list(lp._pool)]
    t = threading.Thread(target=lambda: (lp.terminate(), lp.join()), daemon=True)
    t.start()
    t.join(20)
    if t.is_alive():
        for pid in pids:
            try:
                os.kill(pid, 9)
            except OSError:
                pass
        t.join(30)


def _execute_pool(case):
    """The local equivalent of a Pool proxy is a local billiard Pool (it has
    manners of its own, e.g. a failing imap item surfaces as
    Exception(ExceptionInfo)); the plain computation is only recorded."""
    from billiard.pool import Pool
    mgr = _manager()
    nworkers = 1 + int(case['init']) % 2
    labels = {'type:Pool'}
    nontrivial = False
    out = None
    helper = _ThreadActor()
    # forked before this process owns any proxy: its workers hold none
    lp = Pool(nworkers, T.orphan_watch)
    box = []
    try:
        box.append(mgr.Pool(nworkers, T.orphan_watch))
        for pos, (c, msel, i, v) in enumerate(case['ops'][:12]):
            # the kind of call rotates with the position, so that even the
            # all-zero case (Hypothesis' first) goes through every kind
            kind, via, remote, here = _pool_plan(int(msel) + 4 * pos, i, v)
            got = helper.run(lambda: T.outcome(remote, box[0]))
            want = helper.run(lambda: T.outcome(remote, lp))
            labels.add('op:Pool.' + kind)
            if want[0] == 'exc':
                labels.add('raises:' + want[1].split('.')[-1])
            if want != T.outcome(here):
                labels.add('local-pool-differs-from-plain:' + kind)
            if via != 'Pool' or want[0] == 'exc':
                nontrivial = True
            if got != want:
                sig = {'Iterator': 'C20/registered/Iterator-next'}.get(
                    via, 'C20/registered/%s-%s' % (via, kind))
                out = bad(sig, 'Pool proxy, %s: proxy gave %r, a local Pool '
                          'gives %r' % (kind, got, want))
                break
        if out is None:
            # (a result proxy may still be referenced from a frame that is
            # being unwound in another thread on a loaded machine: an object
            # that is really not disposed of stays for good, so waiting a few
            # seconds for the count loses nothing)
            for _ in range(50):
                gc.collect()
                n = mgr._number_of_objects()
                if n == 1:
                    break
                time.sleep(0.1)
            if n != 1:
                out = bad('C20/registered/not-disposed', '%d objects in the '
                          'server after every result proxy was released; only '
                          'the Pool should be left' % n)
    except _Stuck as exc:
        out = inconclusive(str(exc))
    finally:
        # Pool.terminate() inside the server can block for ever (pool defect,
        # not this property): kill the server tree, then let the proxy go
        _shutdown_manager(hard=True)
        del box[:]
        _stop_local_pool(lp)
        helper.stop()
        gc.collect()
    return out or ok(nontrivial, sorted(labels))


# ---------------------------------------------------------------------------
# part auth
# ---------------------------------------------------------------------------

_KEYSPEC = st.one_of(
    st.tuples(st.just('flip'), st.integers(0, 255), st.integers(0, 7)),
    st.tuples(st.just('prefix'), st.integers(0, 40), st.just(0)),
    st.tuples(st.just('append'), st.integers(0, 255), st.just(0)),
    st.tuples(st.just('raw'), st.lists(st.integers(0, 255), max_size=40),
              st.just(0)),
    st.tuples(st.just('digest-of'), st.integers(0, 255), st.just(0)),
)
_ATTEMPT = st.tuples(
    st.sampled_from(['client', 'manager', 'proxy', 'rebuild', 'raw', 'nokey']),
    _KEYSPEC.map(list))


def auth_cases():
    return st.fixed_dictionaries({
        'attempts': st.lists(_ATTEMPT.map(list), min_size=1, max_size=6),
    })


def _hmac_key(key):
    """what HMAC-MD5 actually keys with: short keys are zero-padded to the
    64-byte block, long ones hashed first"""
    import hashlib
    if len(key) > 64:
        key = hashlib.md5(key).digest()
    return key.ljust(64, b'\0')


def _wrong_key(spec, right):
    kind, a, b = spec[0], spec[1], spec[2]
    if kind == 'flip':
        k = bytearray(right)
        k[a % len(k)] ^= 1 << (b % 8)
        key = bytes(k)
    elif kind == 'prefix':
        key = right[:a % len(right)]
    elif kind == 'append':
        key = right + bytes([a % 256])
    elif kind == 'digest-of':
        key = hmac.new(right, bytes([a % 256]), 'md5').digest()
    else:
        key = bytes(int(x) % 256 for x in a)
    # right + b'\0' (or right minus trailing zeros) is the *same* HMAC key
    # (zero padding), not a wrong one: step aside by construction
    while _hmac_key(key) == _hmac_key(right):
        key += b'\x01'
    return key


def _press_on(address, key):
    """speak the protocol by hand with a wrong key, ignore the rejection and
    try to get a 'create' request served anyway; returns (welcomed, served)"""
    from billiard import connection as bc
    c = bc.SocketClient(address)
    welcomed = served = False
    try:
        def recv_bytes():
            if not c.poll(20):
                raise EOFError
            return c.recv_bytes(1 << 16)
        msg = recv_bytes()
        digest = hmac.new(key, msg[len(bc.CHALLENGE):], 'md5').digest()
        c.send_bytes(digest)
        welcomed = recv_bytes() == bc.WELCOME
        c.send_bytes(bc.CHALLENGE + b'0123456789abcdefghij')
        recv_bytes()
        c.send_bytes(bc.WELCOME)
        c.send((None, 'create', ('list',), {}))
        if c.poll(20):
            reply = c.recv()
            served = isinstance(reply, tuple) and reply[:1] == ('#RETURN',)
    except (EOFError, OSError):
        pass
    except Exception:          # unpicklable garbage and the like: not served
        pass
    finally:
        c.close()
    return welcomed, served


def _no_key(address):
    from billiard import connection as bc
    c = bc.Client(address)
    served = False
    try:
        c.send((None, 'create', ('list',), {}))
        for _ in range(4):
            if not c.poll(20):
                break
            raw = c.recv_bytes(1 << 16)
            if b'#RETURN' in raw:
                served = True
    except (EOFError, OSError):
        pass
    finally:
        c.close()
    return served


def execute_auth(case):
    from billiard import process
    from billiard import connection as bc
    from billiard import managers
    mgr = _manager()
    right = bytes(process.current_process().authkey)
    address = mgr.address
    box = [mgr.list([1])]
    token = box[0]._token
    labels = set()
    rejected = 0
    out = None

    def expect_auth_error(how, fn):
        d = T.outcome(fn)
        if d[0] == 'exc' and d[1].endswith('.AuthenticationError'):
            return None
        return bad('C20/auth/%s-not-rejected' % how,
                   '%s with a wrong key: %r instead of AuthenticationError'
                   % (how, d))

    try:
        for how, spec in case['attempts']:
            key = _wrong_key(spec, right)
            labels.add('how:' + how)
            labels.add('key:' + spec[0])
            if how == 'client':
                res = expect_auth_error(
                    how, lambda: bc.Client(address, authkey=key).close())
            elif how == 'manager':
                res = expect_auth_error(
                    how, lambda: managers.SyncManager(
                        address=address, authkey=key).connect())
            elif how == 'proxy':
                res = expect_auth_error(
                    how, lambda: managers.ListProxy(token, 'pickle', authkey=key))
            elif how == 'rebuild':
                res = expect_auth_error(
                    how, lambda: managers.RebuildProxy(
                        managers.ListProxy, token, 'pickle', {'authkey': key}))
            elif how == 'raw':
                welcomed, served = _press_on(address, key)
                res = None
                if welcomed:
                    res = bad('C20/auth/wrong-key-welcomed',
                              'the server answered WELCOME to a wrong digest')
                elif served:
                    res = bad('C20/auth/request-served', 'a create request was '
                              'answered with #RETURN after a failed challenge')
            else:
                res = None
                if _no_key(address):
                    res = bad('C20/auth/request-served', 'a create request from '
                              'a client without a key was answered')
            gc.collect()
            if res is None and mgr._number_of_objects() != 1:
                res = bad('C20/auth/request-served',
                          'after a %s attempt with a wrong key the server holds '
                          '%d objects instead of 1' % (how, mgr._number_of_objects()))
            if res is not None:
                out = res
                break
            rejected += 1
        if out is None:
            # control: the right key is served, and no wrong-key attempt left a
            # reference behind
            c = bc.Client(address, authkey=right)
            try:
                served = managers.dispatch(c, None, 'dummy') is None
            finally:
                c.close()
            if not served or box[0][0] != 1:
                raise HarnessError('right-key control failed')
            del box[:]
            gc.collect()
            left = mgr._number_of_objects()
            if left:
                out = bad('C20/auth/reference-left', '%d objects left after the '
                          'only genuine proxy was released' % left)
    finally:
        del box[:]
        gc.collect()
    return _finish(out or ok(rejected >= 1, sorted(labels)))


# ---------------------------------------------------------------------------

from engines import c20affine, c20handoff, c20shared

PARTS = {'hist': execute_hist, 'conc': execute_conc,
         'registered': execute_registered, 'auth': execute_auth,
         'shared': c20shared.execute, 'handoff': c20handoff.execute,
         'affine': c20affine.execute}


def _rounds(ctx, part, make_strategy, execute, n, budget, **kw):
    """quick: ``n`` cases.  thorough: rounds of ``n`` cases until ``budget``
    seconds are used (Hypothesis would otherwise spend minutes generating
    examples that the time cap then skips).  vlib derives the Hypothesis seed
    from the shard number, so every round runs under its own pseudo shard
    number; the real one is restored afterwards."""
    if ctx.tier == 'quick' or not ctx.wants(part):
        ctx.explore(part, make_strategy(), execute, n=n, **kw)
        return
    import time
    t0, real, r = time.time(), ctx.shard, 0
    try:
        while not any(v['part'] == part for v in ctx.violations):
            left = budget - (time.time() - t0)
            if left <= 1:
                break
            ctx.shard = real + 1000 * r
            ctx.explore(part, make_strategy(), execute, n=n, time_cap=left, **kw)
            r += 1
    finally:
        ctx.shard = real
    ctx.part(part).budget_cut = True      # bounded by time, not by count


def run(ctx):
    q = ctx.tier == 'quick'
    try:
        _rounds(ctx, 'hist', hist_cases, execute_hist, 8 if q else 25, 400,
                shrink_budget=40 if q else 150)
        _rounds(ctx, 'conc', conc_cases, execute_conc, 3 if q else 10, 90,
                shrink_budget=0, reexecute_confirm=2)
        _rounds(ctx, 'registered', registered_cases, execute_registered,
                6 if q else 25, 110, shrink_budget=30 if q else 100)
        _rounds(ctx, 'registered', lambda: registered_cases(pool=True),
                execute_registered, 2 if q else 4, 100, shrink_budget=0)
        _rounds(ctx, 'auth', auth_cases, execute_auth, 4 if q else 20, 60,
                shrink_budget=20 if q else 60)
        # referents shared by several proxies through a registered callable
        _rounds(ctx, 'shared', c20shared.cases, c20shared.execute,
                10 if q else 40, 120, shrink_budget=30 if q else 100)
        # a proxy handed to a child in its Process args, every start method
        _rounds(ctx, 'handoff', c20handoff.cases, c20handoff.execute,
                4 if q else 30, 120, shrink_budget=8 if q else 30)
        # thread-affine referents (RLock, Condition) used from a forked child
        # that builds and drops other proxies while it holds the lock
        _rounds(ctx, 'affine', c20affine.cases, c20affine.execute,
                4 if q else 30, 90, shrink_budget=8 if q else 30)
        ctx.notes['managers_started'] = _M['started']
    finally:
        _shutdown_manager()
