"""C06 - soft time limit is raised once, inside the task that exceeded it."""
from engines import realparts as rp
from engines import simgen as g
from engines.simprop import make_execute

LEVEL = 'exploration'
RULE = ('real: tasks that count SoftTimeLimitExceeded deliveries while running 3.2-4.3 s with soft limit 1 s (pool-level or per job), hard limit None or 12 s. ' 
        'sim: E1 histories with every combination of pool/per-job soft and hard '
        'limits (soft<hard, soft>=hard, only one, none), 1-15 successive scans '
        'while the job keeps running, READY delivered before/after a scan. '
        'Non-trivial: a job soft-signalled and >=3 scans after, or a READY '
        'delivered between two scans of a job past its soft limit.')
ASSUMPTIONS = [
    'the soft signal is observed as SIGUSR1 recorded for the simulated worker; '
    'that it raises SoftTimeLimitExceeded inside the task is checked on real '
    'pools (part real, when built)',
]
SHARDS = {'quick': 8, 'thorough': 16}
WALL_LIMIT = {'quick': 1500, 'thorough': 6 * 3600}


from hypothesis import strategies as st
SOFT = st.sampled_from([None, 1, 1, 2, 3, 5])
HARD = st.sampled_from([None, None, 2, 5, 10, 20])


def sim_cases():
    cfg = g.config(limits=True, putlocks=False, soft=SOFT, hard=HARD)
    ops = [
        g.op_apply(limits=True, soft=SOFT, hard=HARD, cbscan=True), g.op_apply(limits=True, soft=SOFT, hard=HARD), g.op_apply(limits=True, soft=SOFT, hard=HARD),
        g.run, g.run, g.run, g.adv_lim, g.adv_lim, g.adv_lim, g.adv,
        g.scan, g.scan, g.scan, g.work, g.feed, g.scanrace, g.scanrace,
        g.worker_ops[0], g.worker_ops[2], g.worker_ops[4], g.tick, g.op_map(),
    ]
    return g.history(cfg, ops, max_ops=60, min_ops=12)


def _nontrivial(labels, sim):
    orc = sim.oracle
    return bool(orc.soft_sent) and getattr(sim, 'scans', 0) >= 3


execute_sim = make_execute({'c06'}, _nontrivial, prop='C06')
PARTS = {'sim': execute_sim, 'real': rp.execute_c06}
EXPLORE = {'sim': (sim_cases(), execute_sim), 'real': (rp.c06_cases(), rp.execute_c06)}


def run(ctx):
    ctx.explore('sim', sim_cases(), execute_sim, n=ctx.pick(250, 25000))
    ctx.explore('real', rp.c06_cases(), rp.execute_c06, n=ctx.pick(1, 30),
                shrink_budget=6, reexecute_confirm=2)
