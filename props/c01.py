"""C01 - every submitted job resolves exactly once, with its own outcome."""
from engines import simgen as g
from engines.simoracle import run_case
from vlib.core import bad, ok

LEVEL = 'exploration'
RULE = ('E1 simpool histories: pool size 1-4, threads flavour on/off, jobs of all '
        'four kinds with callbacks, up to 60 ops (take/finish/deliver per worker, '
        'deaths with any status, duplicate and late messages, put faults, ticks, '
        'scans, clock advances, discard, terminate_job, close) + deterministic '
        'quiesce. Non-trivial: >=2 jobs and >=1 fault op (death while RUNNING, '
        'put fault, duplicate message, limit kill, terminate_job, discard). '
        'Distinct = canonical JSON of the case.')
ASSUMPTIONS = [
    'workers are simulated (engines/simpool.py): they die only while IDLE or '
    'RUNNING, messages of one worker are delivered in order',
    'races between two parent threads are below the engine\'s atomic step',
]
SHARDS = {'quick': 4, 'thorough': 16}
FAULT_LABELS = {'death_running', 'putfail_injected', 'putfail_pickle',
                'duplicate_msg', 'terminate_job', 'discard', 'limit_kill'}


def sim_cases():
    cfg = g.config(maxtasks=True, limits=True, lost=True)
    ops = g.worker_ops + [
        g.op_apply(limits=True, lost=True, unpicklable=True),
        g.op_apply(limits=True), g.op_apply(), g.op_map(), g.op_imap(),
        g.work, g.work, g.work, g.feed, g.feed_fault, g.tick, g.tick, g.adv,
        g.adv, g.die_any, g.dier, g.dier0, g.lastgasp, g.wexit, g.dup, g.dup, g.scan, g.scan,
        g.discard, g.tjob, g.tjob, g.hterm, g.close, g.scanrace, g.scanrace, g.parkrecycle,
    ]
    return g.history(cfg, ops, max_ops=60, min_ops=12)


def execute_sim(case):
    sig, detail, labels, sim = run_case(case, {'c01'}, prop='C01')
    njobs = len(sim.jobs)
    nontrivial = njobs >= 2 and bool(labels & FAULT_LABELS)
    if sig:
        return bad(sig, detail, nontrivial, sorted(labels))
    return ok(nontrivial, sorted(labels))


PARTS = {'sim': execute_sim}
EXPLORE = {'sim': (sim_cases(), execute_sim)}


def run(ctx):
    ctx.explore('sim', sim_cases(), execute_sim, n=ctx.pick(1500, 25000))
