"""C05 - hard time limit: job fails, its worker is really gone, pool stays usable."""
from engines import realparts as rp
from engines import simgen as g
from engines.simprop import make_execute

LEVEL = 'exploration'
RULE = ('real: limit 1 s (pool-level or per job), tasks that finish in time / sleep 30 s / swallow BaseException for 6 s (KILL path), a map sharing the pool, then 3 more jobs; pool sizes 1-3. ' 
        'sim: E1 histories, pool sizes 1-4, pool-level and per-job hard/soft limits '
        'from {None,1,2,3,5,10,20}, clock advances around the limits, scans where '
        'the victim honours TERM (exit -15/15) or lingers (KILL path), workers that '
        'are / are not process-group leaders, map and imap jobs sharing the pool, '
        'READY of a nearly-late job delivered before/after the scan; close()+join() of a pool without helper threads while a task with a limit is still running (the shutdown loop scans). Non-trivial: '
        '>=1 job crossing its hard limit at a scan with >=1 other job submitted.')
ASSUMPTIONS = [
    'limits run from the ACK\'s own timestamp and only once the ACK was delivered',
    'KILL cannot be ignored: the simulated process is gone the moment KILL is sent',
]
SHARDS = {'quick': 8, 'thorough': 16}
WALL_LIMIT = {'quick': 1500, 'thorough': 6 * 3600}


def sim_cases():
    cfg = g.config(limits=True, pgleader=True, putlocks=False)
    ops = [
        g.op_apply(limits=True, cbscan=True), g.op_apply(limits=True), g.op_apply(limits=True),
        g.run, g.run, g.run, g.adv_lim, g.adv_lim, g.adv_lim, g.adv,
        g.scan, g.scan, g.scan, g.work, g.feed, g.scanrace, g.scanrace,
        g.worker_ops[0], g.worker_ops[2], g.worker_ops[4], g.hterm, g.tick, g.op_map(), g.op_imap(), g.drainlimit, g.slow,
    ]
    return g.history(cfg, ops, max_ops=60, min_ops=12)


def _nontrivial(labels, sim):
    return any(getattr(mj, 'hard_fired', False) for mj in sim.jobs) and \
        len(sim.jobs) >= 2


execute_sim = make_execute({'c05'}, _nontrivial, prop='C05')
PARTS = {'sim': execute_sim, 'real': rp.execute_c05}
EXPLORE = {'sim': (sim_cases(), execute_sim), 'real': (rp.c05_cases(), rp.execute_c05)}


def run(ctx):
    ctx.explore('sim', sim_cases(), execute_sim, n=ctx.pick(250, 25000))
    ctx.explore('real', rp.c05_cases(), rp.execute_c05, n=ctx.pick(2, 30),
                shrink_budget=6, reexecute_confirm=2)
