"""C03 - worker job protocol: accept before run, one result per job, NACK honoured."""
import pickle

from hypothesis import strategies as st

from engines import simgen as g
from engines.simprop import make_execute
from vlib.core import bad, ok

LEVEL = 'exploration'
RULE = ('worker: the real Worker.workloop run in-process (engines/workerloop.py) on '
        '0-25 generated tasks drawn from {returns a value, raises an Exception '
        'subclass, raises a BaseException subclass, returns an unpicklable value}, '
        'quota None/1-8, SYN handshake on/off with a generated ACK/NACK answer per '
        'task, arbitrary job/index ids; the emitted message stream is parsed by an '
        'independent recogniser (ACK then at most one READY per task, same ids, '
        'real pid, non-decreasing accept times inside the run\'s clock bracket, '
        'NACKed tasks never executed nor counted, quota respected, recycle status '
        'iff quota reached). parent: E1 histories - accept callback before result '
        'callback with the ACK\'s (pid, time), the accepting worker recorded as '
        'owner. synack: generated cancel/ack orders on ApplyResult with a recording '
        'send_ack. Non-trivial: >=3 tasks with >=2 task classes, or >=1 NACK, or '
        'quota hit (worker); >=2 jobs accepted (parent); a cancel (synack).')
ASSUMPTIONS = [
    'the worker loop runs in a helper thread of the checking process (no fork, no '
    'signal handlers); real processes are covered by C09 part real (pid of the '
    'executing process == handle owner)',
    'the base Pool has no SYN queue; the handshake is checked at Worker level '
    '(worker) and ApplyResult level (synack), which is where billiard implements it',
]
SHARDS = {'quick': 4, 'thorough': 16}

EX_RECYCLE = 0x9B

_BEH = st.one_of(
    st.fixed_dictionaries({'kind': st.just('ret'),
                           'value': st.one_of(st.integers(-5, 5), st.text(max_size=5),
                                              st.none())}),
    st.fixed_dictionaries({'kind': st.just('raise'),
                           'type': st.sampled_from(['ValueError', 'KeyError',
                                                    'C12Error', 'OSError']),
                           'args': st.lists(st.integers(0, 9), max_size=2),
                           'depth': st.integers(1, 3)}),
    st.fixed_dictionaries({'kind': st.just('raise'),
                           'type': st.sampled_from(['C12Base', 'KeyboardInterrupt',
                                                    'GeneratorExit']),
                           'args': st.lists(st.integers(0, 9), max_size=2),
                           'depth': st.integers(1, 2)}),
    st.fixed_dictionaries({'kind': st.just('unp'),
                           'leaf': st.sampled_from(['lambda', 'lock', 'rlock',
                                                    'generator', 'localcls',
                                                    'memoryview', 'refuses']),
                           'wrap': st.lists(st.sampled_from(['list', 'dict']),
                                            max_size=2)}),
)


def worker_cases():
    task = st.fixed_dictionaries({
        'job': st.integers(0, 10 ** 6), 'i': st.one_of(st.none(), st.integers(0, 50)),
        'beh': _BEH, 'ack': st.sampled_from([True, True, True, False]),
    })
    return st.fixed_dictionaries({
        'tasks': st.lists(task, max_size=25),
        'quota': st.one_of(st.none(), st.integers(1, 8)),
        'synack': st.booleans(),
    })


def _beh_class(beh):
    if beh['kind'] == 'raise':
        return 'base' if beh['type'] in ('C12Base', 'KeyboardInterrupt',
                                         'GeneratorExit') else 'exc'
    return beh['kind']


def execute_worker(case):
    from engines import targets_c03, targets_c12, workerloop
    tasks = case['tasks']
    synack = case['synack']
    quota = case['quota']
    payload = [(t['job'], t['i'], targets_c03.task, (k, t['beh']), {})
               for k, t in enumerate(tasks)]
    answers = [bool(t['ack']) for t in tasks] if synack else None
    try:
        res = workerloop.run(payload, quota=quota, synack=answers,
                             count_ready=True, timeout=20.0)
    except KeyError:
        raise
    labels = set()
    if res.timed_out:
        return bad('C03/loop-stuck', 'workloop did not end within its time budget')
    if res.outcome[0] == 'raise':
        return bad('C03/loop-raised', repr(res.outcome[1]))
    # ---- which tasks must have been consumed / executed ------------------
    executed, consumed = [], 0
    for k, t in enumerate(tasks):
        if quota is not None and len(executed) >= quota:
            break
        consumed += 1
        if synack and not t['ack']:
            labels.add('nack')
            continue
        executed.append(k)
    quota_hit = quota is not None and len(executed) >= quota
    if quota_hit:
        labels.add('quota_hit')
    # ---- parse the stream ----------------------------------------------
    msgs = res.messages
    pos = 0
    last_t = res.t_start - 0.001
    for k in range(consumed):
        t = tasks[k]
        if pos >= len(msgs) or msgs[pos].kind != 'ACK':
            return bad('C03/no-ack', 'task %d: expected ACK, stream has %r' % (
                k, msgs[pos:pos + 2]))
        a = msgs[pos]
        pos += 1
        if (a.job, a.i) != (t['job'], t['i']):
            return bad('C03/ack-ids', 'task %d: ACK carries (%r,%r), task is (%r,%r)'
                       % (k, a.job, a.i, t['job'], t['i']))
        if a.pid != res.pid:
            return bad('C03/ack-pid', 'ACK pid %r, worker pid %r' % (a.pid, res.pid))
        if not (last_t <= a.t <= res.t_end + 0.001):
            return bad('C03/ack-time', 'task %d: accept time %r outside [%r, %r] or '
                       'decreasing' % (k, a.t, last_t, res.t_end))
        last_t = a.t
        started = [w[2] for w in res.witness
                   if isinstance(w, tuple) and w[:2] == ('start', k)]
        if started and a.t > started[0] + 1e-4:
            return bad('C03/ran-before-accept', 'task %d started at %.6f, its ACK '
                       'carries accept time %.6f' % (k, started[0], a.t))
        if a.fd != res.synqW_fd:
            return bad('C03/ack-fd', 'ACK fd %r, worker synq fd %r' % (
                a.fd, res.synqW_fd))
        nacked = synack and not t['ack']
        if nacked:
            if pos < len(msgs) and msgs[pos].kind == 'READY' and \
                    (msgs[pos].job, msgs[pos].i) == (t['job'], t['i']):
                return bad('C03/nack-ran', 'task %d was refused by the parent but a '
                           'result was sent' % k)
            continue
        if pos >= len(msgs) or msgs[pos].kind != 'READY':
            return bad('C03/no-ready', 'task %d: expected READY after its ACK, stream '
                       'continues with %r' % (k, msgs[pos:pos + 2]))
        r = msgs[pos]
        pos += 1
        if (r.job, r.i) != (t['job'], t['i']):
            return bad('C03/ready-ids', 'task %d: READY carries (%r,%r), task is '
                       '(%r,%r)' % (k, r.job, r.i, t['job'], t['i']))
        cls = _beh_class(t['beh'])
        if cls == 'ret':
            want = targets_c12.decode(t['beh']['value'])
            if not r.ok or r.value != want:
                return bad('C03/ready-value', 'task %d: %r, expected %r' % (
                    k, (r.ok, r.value), want))
        else:
            if r.ok:
                return bad('C03/ready-value', 'task %d (%s) reported success' % (
                    k, cls))
            tname = getattr(getattr(r.value, 'type', None), '__name__', None)
            if cls == 'unp':
                if tname != 'MaybeEncodingError':
                    return bad('C03/ready-value', 'unpicklable result reported as '
                               '%r' % tname)
            elif tname != targets_c12.EXC_TYPES[t['beh']['type']][0].__name__:
                # (OSError(n, ..) may legitimately come out as a subclass)
                if not (t['beh']['type'] == 'OSError' and
                        issubclass(r.value.type, OSError)):
                    return bad('C03/ready-value', 'task %d raised %s, READY says %r'
                               % (k, t['beh']['type'], tname))
    if pos != len(msgs):
        return bad('C03/extra-messages', 'after the %d consumed tasks the stream '
                   'continues with %r' % (consumed, msgs[pos:pos + 3]))
    # ---- witness: executed exactly the non-refused tasks, once, in order --------
    ran = [w for w in res.witness if isinstance(w, int)]
    if ran != executed:
        return bad('C03/executed-set', 'executed tasks %r, expected %r (quota %r, '
                   'refused %r)' % (ran, executed, quota,
                                    [k for k, t in enumerate(tasks)
                                     if synack and not t['ack']]))
    # ---- quota / leftovers / status ----------------------------------------
    left = [m for m in res.leftover_inq if m is not None]
    if len(left) != len(tasks) - consumed:
        return bad('C03/quota-overread', '%d tasks left unread, expected %d' % (
            len(left), len(tasks) - consumed))
    if quota_hit:
        if res.outcome != ('return', EX_RECYCLE):
            return bad('C03/recycle-status', 'quota reached but the loop ended with '
                       '%r' % (res.outcome,))
    elif res.outcome[0] != 'exit':
        return bad('C03/recycle-status', 'quota not reached (%d of %r) but the loop '
                   'ended with %r' % (len(executed), quota, res.outcome))
    classes = set(_beh_class(t['beh']) for t in tasks[:consumed])
    for c in classes:
        labels.add('class_' + c)
    nontrivial = (consumed >= 3 and len(classes) >= 2) or 'nack' in labels or \
        quota_hit
    return ok(nontrivial, sorted(labels))


# ---------------------------------------------------------------------------
# synack at ApplyResult level
# ---------------------------------------------------------------------------

def synack_cases():
    return st.fixed_dictionaries({
        'events': st.lists(st.sampled_from(['cancel', 'ack', 'ack', 'set']),
                           min_size=1, max_size=5),
        # (a raising accept callback is outside the statement; billiard's
        # handling of it - ApplyResult._ack names a non-existent attribute
        # _propagate_errors - is noted in DESIGN.md, not asserted)
        'accept_raises': st.just(False),
        'fd': st.sampled_from([None, 7]),
        # without the handshake _cancel() cannot refuse anything: the job is an
        # ordinary job, accepted and owned like any other
        'handshake': st.sampled_from([True, True, False]),
    })


def execute_synack(case):
    import billiard.pool as bp
    sent = []
    accepted = []
    cache = {}

    def send_ack(response, pid, job, fd):
        sent.append((response, pid, job, fd))

    def acb(pid, t):
        accepted.append((pid, t))
        if case['accept_raises']:
            raise RuntimeError('accept callback failed')
    handshake = case.get('handshake', True)
    r = bp.ApplyResult(cache, None, accept_callback=acb,
                       send_ack=send_ack if handshake else None)
    cancelled = False
    acked = 0
    labels = set()
    for ev in case['events']:
        if ev == 'cancel':
            r._cancel()
            cancelled = True
            labels.add('cancel')
        elif ev == 'ack':
            if acked:
                continue          # one ACK per job (worker side, part worker)
            n_sent, n_acc = len(sent), len(accepted)
            r._ack(None, 12.5, 4242, case['fd'])
            acked += 1
            new = sent[n_sent:]
            if not handshake:
                labels.add('no_handshake')
                if cancelled:
                    labels.add('cancel_without_handshake')
                if new:
                    return bad('C03/answer-without-handshake', 'answers %r' % (new,))
                if accepted[n_acc:] != [(4242, 12.5)]:
                    return bad('C03/accept-callback', 'no handshake%s: accept '
                               'callback calls %r' % (
                                   ', _cancel() called before' if cancelled else '',
                                   accepted[n_acc:]))
                if r._worker_pid != 4242 or r._time_accepted != 12.5:
                    return bad('C03/owner-not-recorded', 'no handshake%s: owner %r,'
                               ' accept time %r' % (
                                   ', _cancel() called before' if cancelled else '',
                                   r._worker_pid, r._time_accepted))
            elif cancelled:
                labels.add('cancelled_before_ack')
                if len(accepted) != n_acc:
                    return bad('C03/cancelled-accepted', 'accept callback ran for a '
                               'job cancelled before acceptance')
                if case['fd'] and new != [(bp.NACK, 4242, r._job, case['fd'])]:
                    return bad('C03/cancelled-not-refused', 'answers sent: %r' % (
                        new,))
            else:
                if accepted[n_acc:] != [(4242, 12.5)]:
                    return bad('C03/accept-callback', 'accept callback calls %r' % (
                        accepted[n_acc:],))
                want = bp.NACK if case['accept_raises'] else bp.ACK
                if case['fd'] and new != [(want, 4242, r._job, case['fd'])]:
                    return bad('C03/ack-answer', 'answers sent: %r, expected %s' % (
                        new, 'NACK' if case['accept_raises'] else 'ACK'))
                if r._worker_pid != 4242 or r._time_accepted != 12.5:
                    return bad('C03/owner-not-recorded', 'owner %r, accept time %r'
                               % (r._worker_pid, r._time_accepted))
            if not case['fd'] and new:
                return bad('C03/answer-without-channel', 'answers %r' % (new,))
        elif ev == 'set':
            r._set(None, (True, 1))
    return ok('cancel' in labels, sorted(labels))


# ---------------------------------------------------------------------------
# parent side on the simulator
# ---------------------------------------------------------------------------

def parent_cases():
    cfg = g.config(putlocks=False)
    ops = g.worker_ops + [
        g.op_apply(), g.op_apply(), g.op_map(), g.work, g.work, g.run, g.run,
        g.feed, g.tick,
    ]
    return g.history(cfg, ops, max_ops=50, min_ops=10)


def _nt_parent(labels, sim):
    return sum(1 for mj in sim.jobs if mj.cb['accept']) >= 2


execute_parent = make_execute({'c01', 'c03'}, _nt_parent, prop='C03')

PARTS = {'worker': execute_worker, 'synack': execute_synack,
         'parent': execute_parent}
EXPLORE = {'worker': (worker_cases(), execute_worker),
           'synack': (synack_cases(), execute_synack),
           'parent': (parent_cases(), execute_parent)}


def run(ctx):
    ctx.explore('worker', worker_cases(), execute_worker, n=ctx.pick(200, 6000))
    ctx.explore('synack', synack_cases(), execute_synack, n=ctx.pick(400, 5000))
    ctx.explore('parent', parent_cases(), execute_parent, n=ctx.pick(250, 10000))
