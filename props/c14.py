"""C14 - the shared-memory heap never hands out overlapping or misplaced memory.

Parts
  seq      generated malloc/free/deferred-free histories on a fresh Heap,
           checked after every op against an independent interval model
  threads  generated per-thread scripts run by real threads (frees through
           finalizers included), invariants checked at the end
"""
import gc
import mmap
import threading

from hypothesis import strategies as st

from vlib.core import bad, ok

LEVEL = 'exploration'
RULE = ('seq: Hypothesis lists of up to 120 ops [malloc n | free k | '
        'free-while-heap-lock-held k | malloc-with-a-free-arriving-inside-it n k] on a fresh Heap(4096|8192); a case '
        'is non-trivial when a malloc reused freed space, or a free coalesced '
        'with both neighbours, or a deferred free happened. threads: 2-4 real '
        'threads each running a generated script; non-trivial when >=2 threads '
        'each did >=1 free. Distinct = distinct canonical JSON of the case.')
ASSUMPTIONS = [
    'the free index is read through Heap._start_to_block/_stop_to_block/'
    '_lengths/_len_to_seq/_allocated_blocks/_pending_free_blocks',
    'the GC-during-malloc path is made deterministic by holding heap._lock '
    'from the harness while calling free()',
    'thread interleavings in part "threads" are whatever the OS produces',
]
SHARDS = {'quick': 4, 'thorough': 16}

PAGE = mmap.PAGESIZE
_SIZES = st.one_of(
    st.sampled_from([0, 1, 7, 8, 9, 15, 16, 17, 24, 64, 255, 256, 1000,
                     PAGE - 8, PAGE - 1, PAGE, PAGE + 1, 2 * PAGE, 2 * PAGE + 8]),
    st.integers(0, 5 * PAGE),
    st.integers(0, 600),
)
_OP = st.one_of(
    st.tuples(st.just('m'), _SIZES),
    st.tuples(st.just('m'), _SIZES),
    st.tuples(st.just('f'), st.integers(0, 1000)),
    st.tuples(st.just('fl'), st.integers(0, 1000)),
    # malloc during which - at the moment the heap first puts a block on its free
    # lists, lock held - another live block is released (a finalizer run by the
    # garbage collector in the middle of malloc)
    st.tuples(st.just('mfd'), _SIZES, st.integers(0, 1000)),
)


def seq_cases():
    return st.fixed_dictionaries({
        'size': st.sampled_from([PAGE, 2 * PAGE]),
        'ops': st.lists(_OP.map(list), min_size=1, max_size=120),
    })


def _roundup(n, a=8):
    return (n + a - 1) // a * a


class _Model:
    def __init__(self):
        self.live = {}     # id -> (arena, start, stop, pattern)
        self.pending = {}  # id -> block  (freed by the user while lock was held)
        self.next_id = 0

    def gaps(self, arenas):
        """maximal extents not covered by live blocks, per arena"""
        out = []
        for a in arenas:
            cur = 0
            for (s, e) in sorted((b[1], b[2]) for b in self.live.values()
                                 if b[0] is a):
                if s > cur:
                    out.append(s - cur)
                cur = max(cur, e)
            if a.size > cur:
                out.append(a.size - cur)
        return out


def _check_structure(heap, model):
    """partition / coalescing / index consistency; returns signature or None"""
    free = list(heap._start_to_block.values())
    for blk in free:
        a, s, e = blk
        if heap._start_to_block.get((a, s)) != blk or \
                heap._stop_to_block.get((a, e)) != blk:
            return 'index-mirror', 'free block %r not mirrored' % ((s, e),)
    if len(heap._stop_to_block) != len(heap._start_to_block):
        return 'index-mirror', 'start/stop index sizes differ'
    lengths = sorted(set(e - s for (_, s, e) in free))
    if list(heap._lengths) != lengths:
        return 'lengths-index', '_lengths=%r expected %r' % (heap._lengths, lengths)
    grouped = {}
    for blk in free:
        grouped.setdefault(blk[2] - blk[1], []).append(blk)
    if set(heap._len_to_seq) != set(grouped):
        return 'lengths-index', '_len_to_seq keys differ'
    for ln, seq in heap._len_to_seq.items():
        if sorted((id(a), s, e) for a, s, e in seq) != \
                sorted((id(a), s, e) for a, s, e in grouped[ln]):
            return 'lengths-index', '_len_to_seq[%d] differs' % ln
    live = [(b[0], b[1], b[2]) for b in model.live.values()]
    pend = list(model.pending.values())
    if set((id(a), s, e) for a, s, e in heap._allocated_blocks) != \
            set((id(a), s, e) for a, s, e in live + pend):
        return 'allocated-set', '_allocated_blocks differs from live+pending'
    if sorted((id(a), s, e) for a, s, e in heap._pending_free_blocks) != \
            sorted((id(a), s, e) for a, s, e in pend):
        return 'pending-list', 'pending list differs from model'
    for arena in heap._arenas:
        tiles = sorted(
            [(s, e, 'F') for (a, s, e) in free if a is arena] +
            [(s, e, 'L') for (a, s, e) in live if a is arena] +
            [(s, e, 'P') for (a, s, e) in pend if a is arena])
        cur, prev_kind = 0, None
        for s, e, kind in tiles:
            if s != cur or e <= s:
                return 'partition', 'arena of %d: tiles %r break at %d' % (
                    arena.size, [(s, e, k) for s, e, k in tiles], cur)
            if kind == 'F' and prev_kind == 'F':
                return 'not-coalesced', 'adjacent free blocks at %d' % s
            cur, prev_kind = e, kind
        if cur != arena.size:
            return 'partition', 'arena of %d covered up to %d' % (arena.size, cur)
    for (a, s, e) in free + live + pend:
        if not any(a is x for x in heap._arenas):
            return 'partition', 'block in unknown arena'
    return None


def _pattern_ok(blk):
    a, s, e, pat = blk
    mv = memoryview(a.buffer)[s:e]
    good = mv.tobytes() == bytes([pat]) * (e - s)
    mv.release()
    return good


def execute_seq(case):
    from billiard.heap import Heap
    heap = Heap(case['size'])
    model = _Model()
    labels = set()
    freed_extents = []
    try:
        for op in case['ops']:
            kind, arg = op[0], op[1]
            injected = None
            if kind == 'mfd':
                kind = 'm'
                if model.live:
                    vkey = sorted(model.live)[op[2] % len(model.live)]
                    victim = model.live[vkey]
                    fired = []
                    real_free = heap._free

                    def hooked(block, _v=victim, _f=fired, _rf=real_free):
                        if not _f:
                            _f.append(1)
                            heap.free(_v[:3])      # finds the lock taken
                        return _rf(block)
                    heap._free = hooked
                    injected = (vkey, victim, fired)
            if kind == 'm':
                need = _roundup(max(arg, 1))
                # pending blocks are reclaimed by malloc before it searches
                saved_pending = dict(model.pending)
                model.pending.clear()
                gaps = model.gaps(heap._arenas)
                fits = bool(gaps) and need <= max(gaps)
                n_arenas = len(heap._arenas)
                try:
                    arena, start, stop = heap.malloc(arg)
                finally:
                    if injected is not None:
                        del heap._free
                if injected is not None and injected[2]:
                    vkey, victim, _ = injected
                    labels.add('free_during_malloc')
                    if not _pattern_ok(victim):
                        return bad('C14/overwritten', 'block freed during malloc')
                    del model.live[vkey]
                    freed_extents.append(victim[:3])
                    b3 = victim[:3]
                    in_pending = any(x == b3 for x in heap._pending_free_blocks)
                    in_alloc = b3 in heap._allocated_blocks
                    if in_pending:
                        saved_pending = dict(saved_pending)
                        model.pending[vkey] = b3
                    elif in_alloc and b3 != (arena, start, stop):
                        # (equal to the new block = freed in time and handed out
                        # again by this very malloc)
                        return bad('C14/free-lost', 'a block released while malloc '
                                   'held the lock is neither pending nor free '
                                   'afterwards')
                if stop - start < arg or stop <= start:
                    return bad('C14/too-small', 'malloc(%d) -> [%d,%d)' % (
                        arg, start, stop))
                if start % 8:
                    return bad('C14/misaligned', 'malloc(%d) -> start %d' % (
                        arg, start))
                if start < 0 or stop > arena.size:
                    return bad('C14/outside-arena', 'malloc(%d) -> [%d,%d) in '
                               'arena of %d' % (arg, start, stop, arena.size))
                for b in model.live.values():
                    if b[0] is arena and start < b[2] and b[1] < stop:
                        return bad('C14/overlap', 'malloc(%d) -> [%d,%d) overlaps'
                                   ' live [%d,%d)' % (arg, start, stop, b[1], b[2]))
                grew = len(heap._arenas) > n_arenas
                if grew and fits:
                    return bad('C14/needless-arena', 'malloc(%d) needs %d, largest'
                               ' free extent %d, yet a new arena was mapped' % (
                                   arg, need, max(gaps)))
                if any(fa is arena and start < fe and fs < stop
                       for (fa, fs, fe) in freed_extents):
                    labels.add('reuse')
                if grew:
                    labels.add('new_arena')
                pat = model.next_id % 251 + 1
                mv = memoryview(arena.buffer)[start:stop]
                mv[:] = bytes([pat]) * (stop - start)
                mv.release()
                model.live[model.next_id] = (arena, start, stop, pat)
                model.next_id += 1
            elif kind in ('f', 'fl'):
                if not model.live:
                    continue
                key = sorted(model.live)[arg % len(model.live)]
                blk = model.live.pop(key)
                if not _pattern_ok(blk):
                    return bad('C14/overwritten', 'block [%d,%d) lost its '
                               'contents' % (blk[1], blk[2]))
                b3 = blk[:3]
                freed_extents.append(b3)
                if kind == 'fl':
                    heap._lock.acquire()
                    try:
                        heap.free(b3)
                    finally:
                        heap._lock.release()
                    model.pending[key] = b3
                    labels.add('deferred')
                else:
                    a, s, e = b3
                    pend_after = {}
                    # does it merge with both neighbours?
                    both = ((a, s) in heap._stop_to_block and
                            (a, e) in heap._start_to_block)
                    heap.free(b3)
                    model.pending = pend_after
                    if both:
                        labels.add('coalesce_both')
                labels.add('freed')
            sig = _check_structure(heap, model)
            if sig:
                return bad('C14/' + sig[0], 'after %r: %s' % (op, sig[1]))
        for key, blk in model.live.items():
            if not _pattern_ok(blk):
                return bad('C14/overwritten', 'block [%d,%d) lost its contents '
                           'at the end' % (blk[1], blk[2]))
    finally:
        arenas = list(heap._arenas)
        del heap
        for a in arenas:
            try:
                a.buffer.close()
            except (BufferError, ValueError):
                pass
    nontrivial = bool(labels & {'reuse', 'coalesce_both', 'deferred',
                                'free_during_malloc'})
    return ok(nontrivial, sorted(labels))


# ---------------------------------------------------------------------------
# threads
# ---------------------------------------------------------------------------

_TOP = st.one_of(
    st.tuples(st.just('m'), st.integers(0, 3000)),
    st.tuples(st.just('m'), st.integers(0, 200)),
    st.tuples(st.just('f'), st.integers(0, 50)),
    st.tuples(st.just('d'), st.integers(0, 50)),   # drop a finalizer-owned block
)


def thread_cases():
    return st.fixed_dictionaries({
        'scripts': st.lists(st.lists(_TOP.map(list), min_size=5, max_size=150),
                            min_size=2, max_size=4),
    })


class _Holder:
    pass


def execute_threads(case):
    from billiard import util
    from billiard.heap import Heap
    heap = Heap(PAGE)
    errors = []
    survivors = []
    frees = [0] * len(case['scripts'])
    start_evt = threading.Event()

    def worker(tid, script):
        mine = []   # (block, pattern, holder)
        start_evt.wait()
        try:
            for j, (kind, arg) in enumerate(script):
                if kind == 'm':
                    blk = heap.malloc(arg)
                    a, s, e = blk
                    if e - s < arg or s % 8 or s < 0 or e > a.size:
                        errors.append(('C14/misplaced', 'malloc(%d) -> [%d,%d) '
                                       'arena %d' % (arg, s, e, a.size)))
                        return
                    pat = (tid * 61 + j) % 251 + 1
                    mv = memoryview(a.buffer)[s:e]
                    mv[:] = bytes([pat]) * (e - s)
                    mv.release()
                    h = _Holder()
                    mine.append([blk, pat, h, None])
                elif mine:
                    ent = mine.pop(arg % len(mine))
                    blk, pat, h, _ = ent
                    if not _pattern_ok(blk + (pat,)):
                        errors.append(('C14/overwritten', 'thread %d block '
                                       '[%d,%d) overwritten' % (tid, blk[1], blk[2])))
                        return
                    frees[tid] += 1
                    if kind == 'f':
                        heap.free(blk)
                    else:
                        util.Finalize(h, heap.free, args=(blk,))
                        del h, ent   # refcount drop runs the finalizer here
        except Exception as exc:   # an exception out of malloc/free is a finding
            errors.append(('C14/raised', '%s: %r' % (type(exc).__name__, exc)))
        finally:
            survivors.extend((b, p) for b, p, _, _ in mine)

    ths = [threading.Thread(target=worker, args=(i, s))
           for i, s in enumerate(case['scripts'])]
    for t in ths:
        t.start()
    start_evt.set()
    for t in ths:
        t.join()
    try:
        if errors:
            return bad(errors[0][0], errors[0][1])
        # flush deferred frees, then check the structure against survivors
        with heap._lock:
            heap._free_pending_blocks()
        model = _Model()
        for i, (blk, pat) in enumerate(survivors):
            if not _pattern_ok(blk + (pat,)):
                return bad('C14/overwritten', 'surviving block [%d,%d) '
                           'overwritten' % (blk[1], blk[2]))
            model.live[i] = blk + (pat,)
        for i, (blk, _) in enumerate(survivors):
            for j, (b2, _) in enumerate(survivors):
                if i < j and blk[0] is b2[0] and blk[1] < b2[2] and b2[1] < blk[2]:
                    return bad('C14/overlap', 'survivors overlap')
        sig = _check_structure(heap, model)
        if sig:
            return bad('C14/' + sig[0], 'after threads: ' + sig[1])
    finally:
        arenas = list(heap._arenas)
        del heap, survivors
        for a in arenas:
            try:
                a.buffer.close()
            except (BufferError, ValueError):
                pass
    return ok(sum(1 for f in frees if f) >= 2, ['threads=%d' % len(ths)])


PARTS = {'seq': execute_seq, 'threads': execute_threads}


def run(ctx):
    n = [0]

    def seq(case):
        n[0] += 1
        if n[0] % 100 == 0:
            gc.collect()
        return execute_seq(case)

    ctx.explore('seq', seq_cases(), seq, n=ctx.pick(700, 12000))
    ctx.explore('threads', thread_cases(), execute_threads,
                n=ctx.pick(40, 1500), shrink_budget=0)
