"""C16 - queues lose nothing, duplicate nothing and respect their capacity.

Parts
  seq     generated op sequences on one Queue / JoinableQueue / SimpleQueue in
          one process, checked op by op against a model deque (Full / Empty
          semantics, timed-get lower bound, task_done over-call, join probe)
  multi   P producers and C consumers, each a process or a thread, on one
          queue, run inside a forked arena process; multiset equality,
          payload equality, per-producer order per consumer, join()
"""
import os
import shutil
import signal
import sys
import tempfile
import threading
import time
import traceback
from collections import deque

from hypothesis import strategies as st

from engines import targets_c16 as tg
from vlib.core import HarnessError, bad, inconclusive, ok

LEVEL = 'exploration'
RULE = ('seq: Hypothesis lists of up to 40 ops [put_nowait | put(timeout) | '
        'put() | get(timeout) | get() | get_nowait | task_done | join probe] '
        'with generated items (ints, text, bytes 0-200000, None, nested) on a '
        'fresh Queue/JoinableQueue(maxsize 0-5) or SimpleQueue; non-trivial '
        'when an item > 64 KiB went through, or Full was raised, or Empty was '
        'raised by a timed get. multi: 1-4 producers x 1-4 consumers, each a '
        'process or a thread, 5-200 tagged items per producer with sizes up '
        'to 150000; non-trivial when P+C >= 3 or an item > 64 KiB was sent or '
        'Full/Empty was hit. Distinct = distinct canonical JSON of the case.')
ASSUMPTIONS = [
    'multi-party interleavings are whatever the OS produces (fork start '
    'method only; process parties are started through billiard.Process from '
    'a forked arena process that is killed with its whole process group)',
    'a get that does not deliver an item the model holds within 15 s counts '
    'as a lost item (part seq)',
    'part multi: "lost" is also concluded when every producer has finished '
    'and flushed, every consumer is running, and no consumer receives '
    'anything during 20 s of observed polling time (C16/stalled, reported '
    'with the stacks of all parties); a failing multi-party execution must '
    'fail again on re-execution to count and is kept as '
    'replays/C16-execution-<hash>.json either way',
    'timed get lower bound is 0.9*t - 5 ms (poll truncates to whole ms); '
    'no upper bound on any wait is asserted',
    'the capacity clause in part multi is a lower bound on the number of '
    'waiting items computed from thread parties only (all consumers threads)',
    'SimpleQueue in part seq: a put that could overflow the 64 KiB pipe is '
    'made from a helper thread while the main thread drains',
    'the checking process calls gc.freeze() before its first fork so that '
    'forked parties do not spend seconds in copy-on-write garbage collection',
    'mutants: 10/10 killed in the quick tier at seed 1 (mutants/C16-*.patch); '
    'the three lock mutants also at seeds 2 and 3',
]
SHARDS = {'quick': 8, 'thorough': 16}
WALL_LIMIT = {'quick': 600, 'thorough': 3600}

BIG = 65536
_T = [0.02, 0.03, 0.05, 0.1, 0.2]
WAIT_BUDGET = 0.45          # nominal seconds of deliberate waiting per case
JOIN_BLOCKED_WAIT = 0.3
BOUND = 15.0
GET_PRESENT_TIMEOUT = BOUND                # s; "never happened" bound for in-process waits

# ---------------------------------------------------------------------------
# items
# ---------------------------------------------------------------------------

_TEXT = 'aé☃\U0001d11e z\n\x00Q'


def build_item(spec, serial):
    k = spec[0]
    if k == 'i':
        return int(spec[1]) * 1024 + serial % 1024
    if k == 's':
        n = int(spec[1])
        r = serial % len(_TEXT)
        base = _TEXT[r:] + _TEXT[:r]
        return (base * (n // len(base) + 1))[:n]
    if k == 'b':
        return tg.payload(1, serial, int(spec[1]))
    if k == 'n':
        return None
    if k == 'l':
        n = int(spec[1])
        return {'k': [serial, 1.5, None, True, (serial, 'x')],
                's': 'y' * n, 'b': tg.payload(2, serial, n)}
    raise ValueError('bad item spec %r' % (spec,))


def item_bytes(obj):
    if isinstance(obj, (bytes, str)):
        return len(obj) * (4 if isinstance(obj, str) else 1)
    if isinstance(obj, dict):
        return 200 + sum(item_bytes(v) for v in obj.values())
    return 64


def same(a, b):
    if type(a) is not type(b):
        return False
    if isinstance(a, dict):
        return a.keys() == b.keys() and all(same(a[k], b[k]) for k in a)
    if isinstance(a, (list, tuple)):
        return len(a) == len(b) and all(same(x, y) for x, y in zip(a, b))
    return a == b


def short(obj):
    r = repr(obj)
    return r if len(r) <= 80 else '%s...(%d chars)' % (r[:60], len(r))


_SIZES = st.one_of(
    st.sampled_from([0, 1, 100, 4000, 16300, 16384, 16400, 65000, 65536,
                     65537, 70000, 131072, 200000]),
    st.integers(0, 200000),
    st.integers(0, 300),
)
_ITEM = st.one_of(
    st.tuples(st.just('i'), st.integers(-2 ** 70, 2 ** 70)),
    st.tuples(st.just('s'), st.integers(0, 3000)),
    st.tuples(st.just('b'), _SIZES),
    st.tuples(st.just('b'), _SIZES),
    st.tuples(st.just('b'), st.sampled_from([65537, 70000, 131072, 200000])),
    st.tuples(st.just('n')),
    st.tuples(st.just('l'), st.integers(0, 50)),
).map(list)
_TI = st.integers(0, len(_T) - 1)
# timed gets also with a timeout that has elapsed before the call begins
_TG = _T + [0.0, 0.0, -0.5]
_TGI = st.integers(0, len(_TG) - 1)
_OP = st.one_of(
    st.tuples(st.just('pn'), _ITEM),
    st.tuples(st.just('pn'), _ITEM),
    st.tuples(st.just('pn'), _ITEM),
    st.tuples(st.just('pt'), _ITEM, _TI),
    st.tuples(st.just('pb'), _ITEM),
    st.tuples(st.just('g'), _TI),
    st.tuples(st.just('g'), _TGI),
    st.tuples(st.just('gb')),
    st.tuples(st.just('gn')),
    st.tuples(st.just('td')),
    st.tuples(st.just('td')),
    st.tuples(st.just('j')),
).map(list)


def seq_cases():
    return st.fixed_dictionaries({
        'kind': st.sampled_from(['Q', 'Q', 'JQ', 'JQ', 'SQ']),
        'maxsize': st.sampled_from([0, 1, 1, 2, 2, 3, 4, 5]),
        'ops': st.lists(_OP, min_size=1, max_size=40),
    })


# ---------------------------------------------------------------------------
# part seq
# ---------------------------------------------------------------------------

class _Viol(Exception):
    def __init__(self, sig, detail):
        self.sig, self.detail = sig, detail


def _pages(obj):
    return (item_bytes(obj) + 300 + 4095) // 4096 * 4096


def _threaded(fn, bound=BOUND):
    """run fn() in a helper thread; returns (finished, result, exception)"""
    box = {}

    def body():
        try:
            box['r'] = fn()
        except BaseException as exc:
            box['e'] = exc
    t = threading.Thread(target=body, daemon=True)
    t.start()
    t.join(bound)
    return (not t.is_alive()), box.get('r'), box.get('e')


def execute_seq(case):
    from queue import Empty, Full
    kind = case['kind']
    maxsize = int(case['maxsize'])
    q = tg.make_queue(kind, maxsize)
    cap = maxsize if (maxsize > 0 and kind != 'SQ') else None
    model = deque()
    st_ = {'unfinished': 0, 'serial': 0, 'budget': WAIT_BUDGET,
           'pipe': 0}
    labels = set([kind, 'maxsize=%d' % (maxsize if kind != 'SQ' else 0)])

    def raised(op, exc):
        return _Viol('C16/raised/%s/%s' % (op, type(exc).__name__),
                     '%s raised %r; model holds %d item(s)' % (
                         op, exc, len(model)))

    def check_got(got, how):
        want = model.popleft()
        if kind == 'SQ':
            st_['pipe'] -= _pages(want)
        if not same(got, want):
            if any(same(got, m) for m in model):
                raise _Viol('C16/order', '%s returned %s, the model head was '
                            '%s' % (how, short(got), short(want)))
            raise _Viol('C16/changed', '%s returned %s, expected %s' % (
                how, short(got), short(want)))
        if item_bytes(want) > BIG:
            labels.add('big_got')

    def get_present(how='get(timeout=%g)' % GET_PRESENT_TIMEOUT):
        """an item the model holds must come out"""
        if kind == 'SQ':
            fin, got, exc = _threaded(q.get)
            if not fin:
                raise _Viol('C16/lost', 'SimpleQueue.get() still blocked '
                            'after %gs; model holds %d' % (BOUND, len(model)))
            if exc is not None:
                raise raised('get', exc)
        else:
            try:
                got = q.get(timeout=GET_PRESENT_TIMEOUT)
            except Empty:
                raise _Viol('C16/lost', 'get(timeout=%g) raised Empty; model '
                            'holds %d item(s), head %s' % (
                                GET_PRESENT_TIMEOUT, len(model),
                                short(model[0])))
            except Exception as exc:
                raise raised('get', exc)
        check_got(got, how)

    def do_put(spec, how, ti=0):
        item = build_item(spec, st_['serial'])
        st_['serial'] += 1
        full = cap is not None and len(model) >= cap
        if kind == 'SQ':
            need = _pages(item)
            if st_['pipe'] + need <= tg.PIPE_BUF_BYTES - 8192:
                try:
                    q.put(item)
                except Exception as exc:
                    raise raised('put', exc)
                model.append(item)
                st_['pipe'] += need
            else:
                # would block without a reader: put from a helper thread
                # while this thread drains everything
                labels.add('sq_threaded_put')
                box = {}

                def putter():
                    try:
                        q.put(item)
                    except BaseException as exc:
                        box['e'] = exc
                t = threading.Thread(target=putter, daemon=True)
                t.start()
                model.append(item)
                st_['pipe'] += need
                while model:
                    get_present('get()')
                t.join(BOUND)
                if t.is_alive():
                    raise _Viol('C16/put-stuck', 'SimpleQueue.put still '
                                'blocked though everything was read')
                if 'e' in box:
                    raise raised('put', box['e'])
            if item_bytes(item) > BIG:
                labels.add('big_put')
            return
        if full and how == 'pb':
            how, ti = 'pt', 0
        if full and how == 'pt' and st_['budget'] < _T[ti]:
            how = 'pn'
        try:
            if how == 'pn':
                q.put_nowait(item)
            elif how == 'pt':
                if full:
                    st_['budget'] -= _T[ti]
                q.put(item, timeout=_T[ti])
            else:
                fin, _, exc = _threaded(lambda: q.put(item))
                if not fin:
                    raise _Viol('C16/put-stuck', 'put() still blocked after '
                                '%gs with %d item(s) waiting, maxsize %d' % (
                                    BOUND, len(model), maxsize))
                if exc is not None:
                    raise exc
        except Full:
            if not full:
                raise _Viol('C16/spurious-full', '%s raised Full with %d '
                            'item(s) waiting, maxsize %d' % (
                                how, len(model), maxsize))
            labels.add('full')
            return
        except _Viol:
            raise
        except Exception as exc:
            raise raised('put', exc)
        if full:
            raise _Viol('C16/capacity', '%s accepted an item while %d were '
                        'waiting, maxsize %d' % (how, len(model), maxsize))
        model.append(item)
        if kind == 'JQ':
            st_['unfinished'] += 1
        if item_bytes(item) > BIG:
            labels.add('big_put')

    def step(op):
        code = op[0]
        if code in ('pn', 'pt', 'pb'):
            do_put(op[1], code, int(op[2]) if code == 'pt' else 0)
        elif code == 'g':
            if model:
                get_present()
            elif kind == 'SQ':
                labels.add('skipped')
            else:
                t = _TG[int(op[1])]
                if st_['budget'] < t:
                    labels.add('skipped')
                    return
                st_['budget'] -= max(t, 0)
                if t <= 0:
                    labels.add('get_timeout_elapsed_at_call')
                t0 = time.monotonic()
                try:
                    got = q.get(timeout=t)
                except Empty:
                    dt = time.monotonic() - t0
                    if dt < 0.9 * t - 0.005:
                        raise _Viol('C16/empty-early', 'get(timeout=%g) on an '
                                    'empty queue raised Empty after %.4fs'
                                    % (t, dt))
                    labels.add('empty_timed')
                except Exception as exc:
                    raise raised('get', exc)
                else:
                    raise _Viol('C16/phantom', 'get(timeout=%g) returned %s '
                                'from a queue the model says is empty' % (
                                    t, short(got)))
        elif code == 'gb':
            if not model:
                labels.add('skipped')
            elif kind == 'SQ':
                get_present('get()')
            else:
                fin, got, exc = _threaded(q.get)
                if not fin:
                    raise _Viol('C16/lost', 'get() still blocked after %gs; '
                                'model holds %d item(s)' % (BOUND, len(model)))
                if exc is not None:
                    raise raised('get', exc)
                check_got(got, 'get()')
                labels.add('get_blocking')
        elif code == 'gn':
            if kind == 'SQ':
                if model:
                    get_present('get()')
                return
            try:
                got = q.get_nowait()
            except Empty:
                # with a non-empty model this is the feeder thread's latency
                labels.add('empty_nowait' if not model else 'nowait_race')
            except Exception as exc:
                raise raised('get_nowait', exc)
            else:
                if not model:
                    raise _Viol('C16/phantom', 'get_nowait returned %s from a'
                                ' queue the model says is empty' % short(got))
                check_got(got, 'get_nowait')
        elif code == 'td':
            if kind != 'JQ':
                return
            try:
                q.task_done()
            except ValueError:
                if st_['unfinished'] > 0:
                    raise _Viol('C16/task-done-refused', 'task_done raised '
                                'ValueError with %d unfinished' %
                                st_['unfinished'])
                labels.add('td_overcall')
            except Exception as exc:
                raise raised('task_done', exc)
            else:
                if st_['unfinished'] <= 0:
                    raise _Viol('C16/task-done-overcall', 'task_done beyond '
                                'the number of puts did not raise ValueError')
                st_['unfinished'] -= 1
        elif code == 'j':
            if kind != 'JQ':
                return
            n = st_['unfinished']
            if n > 0 and st_['budget'] < JOIN_BLOCKED_WAIT:
                labels.add('skipped')
                return
            done = threading.Event()
            box = {}

            def probe():
                try:
                    q.join()
                except BaseException as exc:
                    box['e'] = exc
                done.set()
            t = threading.Thread(target=probe, daemon=True)
            t.start()
            if n == 0:
                if not done.wait(BOUND):
                    raise _Viol('C16/join-stuck', 'join() with nothing '
                                'unfinished still blocked after %gs' % BOUND)
                labels.add('join_free')
            else:
                st_['budget'] -= JOIN_BLOCKED_WAIT
                if done.wait(JOIN_BLOCKED_WAIT):
                    raise _Viol('C16/join-early', 'join() returned with %d '
                                'unfinished task(s)' % n)
                try:
                    for _ in range(n - 1):
                        q.task_done()
                    if n > 1 and done.wait(0.05):
                        raise _Viol('C16/join-early', 'join() returned with 1'
                                    ' of %d task(s) still unfinished' % n)
                    q.task_done()
                except _Viol:
                    raise
                except Exception as exc:
                    raise raised('task_done', exc)
                st_['unfinished'] = 0
                if not done.wait(BOUND):
                    raise _Viol('C16/join-stuck', 'join() still blocked %gs '
                                'after the last task_done' % BOUND)
                labels.add('join_blocked')
            t.join(BOUND)
            if 'e' in box:
                raise raised('join', box['e'])

    viol = None
    try:
        try:
            for op in case['ops']:
                step(op)
            # every accepted item comes out, in order, and nothing else does
            while model:
                get_present()
            if kind != 'SQ':
                try:
                    got = q.get(timeout=0.02)
                except Empty:
                    pass
                except Exception as exc:
                    raise raised('get', exc)
                else:
                    raise _Viol('C16/duplicated', 'after the last item, get '
                                'returned %s' % short(got))
        except _Viol as v:
            viol = v
    finally:
        _cleanup(q, kind, drained=viol is None)
    if viol is not None:
        return bad(viol.sig, viol.detail, labels=sorted(labels))
    nontrivial = bool(labels & {'big_got', 'full', 'empty_timed'})
    return ok(nontrivial, sorted(labels))


def _cleanup(q, kind, drained):
    """close the queue and make sure its feeder thread is gone"""
    from queue import Empty
    if kind == 'SQ':
        q.close()
        return
    if not drained:
        # keep the feeder from dying noisily on a closed pipe
        for _ in range(200):
            try:
                q.get(timeout=0.1)
            except Empty:
                break
            except Exception:
                break
    th = q._thread
    q.close()
    q.join_thread()
    if th is not None:
        th.join(BOUND)
        if th.is_alive() and drained:
            raise HarnessError('feeder thread still alive %gs after close() '
                               'of a drained queue' % BOUND)


# ---------------------------------------------------------------------------
# part multi
# ---------------------------------------------------------------------------

_PSIZE = st.sampled_from([0, 10, 300, 3000, 5000, 17000, 40000, 70000,
                          150000])
_PRODUCER = st.fixed_dictionaries({
    'proc': st.integers(0, 1),
    'n': st.one_of(st.integers(5, 200), st.integers(5, 40)),
    'sizes': st.lists(_PSIZE, min_size=1, max_size=4),
    'mode': st.sampled_from(['block', 'block', 'timed']),
})
_CONSUMER = st.fixed_dictionaries({
    'proc': st.integers(0, 1),
    'mode': st.sampled_from(['block', 'block', 'timed']),
})


def multi_cases():
    return st.fixed_dictionaries({
        'kind': st.sampled_from(['Q', 'Q', 'JQ', 'JQ', 'SQ']),
        'maxsize': st.sampled_from([0, 0, 1, 2, 3, 5, 20]),
        'producers': st.lists(_PRODUCER, min_size=1, max_size=4),
        'consumers': st.lists(_CONSUMER, min_size=1, max_size=4),
    })


BACKSTOP = 300.0    # s; the arena has its own, shorter, deadlines


_FROZEN = []


def _freeze_heap():
    """Move everything this (large, Hypothesis-laden) process has allocated
    out of the garbage collector's sight before the first fork.  Without it
    a forked child that happens to run a full collection touches every page
    of the inherited heap (copy-on-write) and can spend seconds of CPU before
    it runs its first line - observed as 6-20 s late starters on a loaded
    box."""
    import gc
    if not _FROZEN:
        gc.collect()
        gc.freeze()
        _FROZEN.append(True)


def _run_arena(case):
    """fork the arena, wait for it, kill its whole process group;
    returns (result-or-None, arena traceback-or-None, stragglers)"""
    # import everything the arena needs before forking it
    import billiard
    import billiard.popen_fork
    import billiard.queues
    import billiard.synchronize  # noqa
    _freeze_heap()
    tmp = tempfile.mkdtemp(prefix='verif-c16-')
    try:
        sys.stdout.flush()
        sys.stderr.flush()
        pid = os.fork()
        if pid == 0:
            code = 0
            try:
                os.setsid()
                res = tg.arena_main(case, tmp)
                tg._dump(os.path.join(tmp, 'result.json'), res)
            except BaseException:
                code = 3
                try:
                    with open(os.path.join(tmp, 'arena_error.txt'), 'w') as f:
                        f.write(traceback.format_exc())
                except BaseException:
                    pass
            finally:
                os._exit(code)
        t0 = time.monotonic()
        delay = 0.002
        reaped = False
        while time.monotonic() - t0 < BACKSTOP:
            rp, _ = os.waitpid(pid, os.WNOHANG)
            if rp:
                reaped = True
                break
            time.sleep(delay)
            delay = min(0.02, delay * 1.5)
        stragglers = False
        if reaped:
            try:
                os.killpg(pid, 0)
                stragglers = True
            except (ProcessLookupError, PermissionError):
                pass
        try:
            os.killpg(pid, signal.SIGKILL)
        except (ProcessLookupError, PermissionError):
            pass
        if not reaped:
            os.waitpid(pid, 0)
        res = tg._load(os.path.join(tmp, 'result.json'))
        err = None
        try:
            with open(os.path.join(tmp, 'arena_error.txt')) as f:
                err = f.read()
        except FileNotFoundError:
            pass
        if res is None and err is None and not reaped:
            # backstop hit: salvage what the process parties wrote
            res = {'phase': 'backstop', 'consumers': [], 'producers': []}
            for k in range(len(case['consumers'])):
                rep = tg._load(os.path.join(tmp, 'c%d.json' % k))
                if rep:
                    res['consumers'].append(rep)
            for k in range(len(case['producers'])):
                rep = tg._load(os.path.join(tmp, 'p%d.json' % k))
                if rep:
                    res['producers'].append(rep)
        return res, err, stragglers
    finally:
        shutil.rmtree(tmp, ignore_errors=True)


def _timeline(res):
    """seconds since the arena started, for the diagnosis of a stall"""
    t = res.get('times') or {}
    t0 = t.get('arena_start', 0.0)

    def rel(x):
        return 'n/a' if x is None else '%.2f' % (x - t0)
    out = ['arena: ' + ' '.join('%s=%s' % (k, rel(v)) for k, v in
                                sorted(t.items(), key=lambda kv: kv[1]))]
    for who in ('producers', 'consumers'):
        for k, rep in enumerate(res.get(who, [])):
            out.append('%s %d: %s' % (who[:-1], k, ' '.join(
                '%s=%s' % (f, rel(rep.get(f)))
                for f in ('t_start', 't_last', 't_end') if f in rep) +
                (' (no report)' if rep.get('missing') else '') +
                ' exitcode=%r' % (rep.get('exitcode'),)))
    return '\n'.join(out)


def execute_multi(case):
    prods, cons = case.get('producers') or [], case.get('consumers') or []
    if not prods or not cons:
        return ok(False, ['degenerate'])
    res, err, stragglers = _run_arena(case)
    if err is not None:
        raise HarnessError('C16 arena crashed:\n' + err)
    if res is None:
        raise HarnessError('C16 arena left no result')
    kind, maxsize = case['kind'], int(case['maxsize'])
    plan = [tg.plan_n(p) for p in prods]
    labels = set([kind, 'P=%d' % len(prods), 'C=%d' % len(cons)])
    if any(p['proc'] for p in prods):
        labels.add('producer_process')
    if any(not p['proc'] for p in prods):
        labels.add('producer_thread')
    if any(c['proc'] for c in cons):
        labels.add('consumer_process')
    if any(not c['proc'] for c in cons):
        labels.add('consumer_thread')
    if sum(1 for p in prods if p['proc']) >= 2:
        labels.add('producer_processes>=2')
    if stragglers:
        labels.add('straggler_killed')
    big = any(tg.size_of(p, s) > BIG for p, n in zip(prods, plan)
              for s in range(min(n, len(p['sizes']))))
    if big:
        labels.add('big')

    # what the parties themselves ran into
    for k, rep in enumerate(res.get('producers', [])):
        if rep.get('error'):
            return bad('C16/put-raised', 'producer %d: %s' % (k, rep['error']),
                       labels=sorted(labels))
    for k, rep in enumerate(res.get('consumers', [])):
        if rep.get('error'):
            return bad('C16/get-raised', 'consumer %d: %s' % (k, rep['error']),
                       labels=sorted(labels))
        if rep.get('malformed'):
            return bad('C16/changed', 'consumer %d received %s' % (
                k, rep['malformed']), labels=sorted(labels))
    seen = {}
    for k, rep in enumerate(res.get('consumers', [])):
        last = {}
        for p, seq, good in rep['log']:
            if not (0 <= seq < plan[p]):
                return bad('C16/phantom', 'consumer %d received (%d, %d) which'
                           ' was never sent' % (k, p, seq),
                           labels=sorted(labels))
            if not good:
                return bad('C16/changed', 'consumer %d: payload of (%d, %d) '
                           'differs from what was put' % (k, p, seq),
                           labels=sorted(labels))
            if (p, seq) in seen:
                return bad('C16/duplicated', 'item (%d, %d) received by '
                           'consumer %d and consumer %d' % (
                               p, seq, seen[(p, seq)], k),
                           labels=sorted(labels))
            seen[(p, seq)] = k
            if p in last and seq <= last[p]:
                return bad('C16/order', 'consumer %d received (%d, %d) after '
                           '(%d, %d)' % (k, p, seq, p, last[p]),
                           labels=sorted(labels))
            last[p] = seq

    for who in ('producers', 'consumers'):
        for k, rep in enumerate(res.get(who, [])):
            if rep.get('missing') and rep.get('exitcode') not in (None, 0):
                return bad('C16/party-died', '%s %d exited with code %r '
                           'without a report' % (who[:-1], k, rep['exitcode']),
                           labels=sorted(labels))
    phase = res.get('phase')
    if phase == 'aborted':
        raise HarnessError('arena aborted without a party error: %r' % (res,))
    if phase == 'stalled':
        return bad('C16/stalled', 'every producer finished and flushed, yet '
                   'no consumer (all running) received anything for %gs; %d of %d items '
                   'received (process consumers report only at their end)\n'
                   '%s\nthreads of the arena process:\n%s' % (
                       tg.STALL_DEADLINE, len(seen), sum(plan),
                       _timeline(res), res.get('stacks', '')),
                   labels=sorted(labels))
    if phase != 'done':
        return inconclusive('arena phase %s' % phase, sorted(labels))

    for k, rep in enumerate(res['producers']):
        if rep.get('missing') or rep['sent'] != plan[k] or \
                rep.get('exitcode') not in (None, 0):
            raise HarnessError('producer %d report %r' % (k, rep))
    for k, rep in enumerate(res['consumers']):
        if rep.get('missing') or rep.get('exitcode') not in (None, 0):
            raise HarnessError('consumer %d report %r' % (k, rep))
        if rep['sentinels'] != 1:
            raise HarnessError('consumer %d saw %d sentinels' % (
                k, rep['sentinels']))
    missing = [(p, s) for p, n in enumerate(plan) for s in range(n)
               if (p, s) not in seen]
    if missing:
        return bad('C16/lost', '%d item(s) never received, first %r' % (
            len(missing), missing[0]), labels=sorted(labels))
    if res.get('extra') is not None:
        return bad('C16/duplicated', 'after all sentinels were consumed the '
                   'queue still delivered %s' % res['extra'],
                   labels=sorted(labels))
    if kind == 'JQ':
        j = res['join']
        if not j['returned']:
            return bad('C16/join-stuck', 'join() still blocked %gs after every'
                       ' consumer had called task_done for everything'
                       % tg.JOIN_DEADLINE, labels=sorted(labels))
        if j['progress_at_return'] is None or \
                j['progress_at_return'] < res['total']:
            return bad('C16/join-early', 'join() returned when only %r of %d '
                       'items had reached their task_done' % (
                           j['progress_at_return'], res['total']),
                       labels=sorted(labels))
        labels.add('join_checked')
    if res.get('cap_max_lb') is not None:
        labels.add('capacity_checked')
        if res['cap_max_lb'] > maxsize:
            return bad('C16/capacity', 'at least %d items were waiting, '
                       'maxsize %d' % (res['cap_max_lb'], maxsize),
                       labels=sorted(labels))
    if res.get('feeder_alive'):
        raise HarnessError('arena feeder thread alive after close')
    hits = sum(r['full_hits'] for r in res['producers']) + \
        sum(r['empty_hits'] for r in res['consumers'])
    if any(r['full_hits'] for r in res['producers']):
        labels.add('full')
    if any(r['empty_hits'] for r in res['consumers']):
        labels.add('empty_timed')
    if any(len(set(p for p, _, _ in r['log'])) >= 2
           for r in res['consumers']):
        labels.add('consumer_saw>=2_producers')
    if sum(1 for r in res['consumers'] if r['log']) >= 2:
        labels.add('consumers_sharing>=2')
    nontrivial = big or hits > 0 or len(prods) + len(cons) >= 3
    return ok(nontrivial, sorted(labels))


from engines import c16firstput

PARTS = {'seq': execute_seq, 'multi': execute_multi,
         'firstput': c16firstput.execute}


# violations that take BOUND seconds to observe are not shrunk (every
# still-failing candidate would cost that long again)
_SLOW = ('C16/lost', 'C16/put-stuck', 'C16/join-stuck')


def run(ctx):
    slow = [False]

    def seq(case):
        if slow[0]:
            return ok(False, ['shrink_skipped'])
        out = execute_seq(case)
        if out.violated and out.signature in _SLOW:
            slow[0] = True
        return out

    ctx.explore('seq', seq_cases(), seq, n=ctx.pick(75, 2000),
                shrink_budget=40)
    if ctx.violations:
        return      # a broken queue makes the multi-party runs hang, not fail

    def multi(case):
        out = execute_multi(case)
        if out.violated:
            # keep every failing multi-party execution, also one that the
            # re-execution rule then discards as unconfirmed
            _keep_failure(ctx, case, out)
        return out

    ctx.explore('multi', multi_cases(), multi, n=ctx.pick(5, 150),
                shrink_budget=0, reexecute_confirm=1)
    # threads of one process racing on their first put (lazy feeder start)
    ctx.explore('firstput', c16firstput.cases(), c16firstput.execute,
                n=ctx.pick(12, 300), shrink_budget=0)


def _keep_failure(ctx, case, out):
    import json
    from vlib.core import VERIF, canon, case_hash
    ctx.notes['multi_failing_executions'] = \
        ctx.notes.get('multi_failing_executions', 0) + 1
    os.makedirs(os.path.join(VERIF, 'replays'), exist_ok=True)
    path = os.path.join(VERIF, 'replays', 'C16-execution-%s.json'
                        % case_hash(case))
    with open(path, 'w') as f:
        json.dump({'property': 'C16', 'part': 'multi',
                   'signature': out.signature, 'detail': out.detail,
                   'case': json.loads(canon(case)), 'seed': ctx.seed,
                   'tier': ctx.tier, 'note': 'one failing execution; counts '
                   'as a violation only if the re-execution fails too'},
                  f, indent=1, sort_keys=True)
