"""C17 - locks, semaphores, conditions and events: no lost wake-ups.

Parts
  cond        generated programs (2-5 logical threads of wait / timed wait /
              notify / notify_all) x generated schedules over the REAL
              billiard.synchronize.Condition on simulated semaphores (E4)
  event       the same for the REAL Event (set / clear / is_set / wait)
  cond_dfs2   ALL schedules (one per class of interleavings equal up to
              commuting independent semaphore operations) of every 2-thread
              Condition program with <=2 ops per thread (exhaustive)
  event_dfs2  the same for every 2-thread Event program with <=2 ops per thread
  cond_dfs3   the same for 3-thread programs: one op per thread (cond_dfs3 in
  event_dfs3  both tiers, event_dfs3 thorough only), plus one thread with two
              ops (thorough; exhaustive only if neither the per-program cap
              nor the time cap cut in)
  real        real Lock / RLock / Semaphore(n) / BoundedSemaphore(n) contended
              by 2-8 processes x threads; holder witness in shared memory
  seqsem      real BoundedSemaphore / Semaphore / RLock driven sequentially
              against a counter model (bounded over-release, k releases)
"""
import os
import shutil
import tempfile
import time

from hypothesis import strategies as st

from vlib.core import bad, inconclusive, ok

LEVEL = 'exploration'
RULE = ('cond/event: Hypothesis draws a program (2-5 logical threads, 1-3 ops '
        'each; Condition on RLock, RLock held twice, or plain Lock) and a '
        'schedule = list of choices among the enabled semaphore-level '
        'transitions (incl. "timeout fires"); *_dfs2 enumerate, for every '
        '2-thread program with <=2 ops per thread, one schedule of every class '
        'of interleavings that differ only in the order of commuting '
        'semaphore operations (sleep sets); *_dfs3 do so for 3-thread '
        'programs (one op per thread; thorough: one thread may have two). '
        'A cond case is '
        'non-trivial when a timed-out waiter acknowledges its wake-up (first '
        'semaphore operation after the timeout fired) while another thread is '
        'inside notify/notify_all, or a notify is issued while >=2 waiters are '
        'waiting; an event case when that acknowledgement happens while a '
        'set() holds the lock or a set() finds >=2 sleeping waiters. real: non-trivial when '
        'the lock was actually contended (some non-blocking acquire failed) '
        'and, for semaphores with n>=2, >=2 holders were seen inside together. '
        'seqsem: non-trivial when an over-release or a refused acquire '
        'occurred. Distinct = distinct canonical JSON of the case.')
ASSUMPTIONS = [
    'E4: the simulated SemLock (engines/detsched.py) is the specification of '
    'the C SemLock: counting semaphore, trywait-then-timedwait acquire, '
    'per-object count/owner, recursive kind re-enters without a semaphore op',
    'interleavings are explored at the granularity of semaphore operations; '
    'Python code between two semaphore operations is atomic',
    'DFS parts: operations of different threads on different semaphores, a '
    '"timeout fires" transition (touches no semaphore) against anything of '
    'another thread, and two posts to one unbounded semaphore are taken to '
    'commute; one representative per equivalence class is executed '
    '(engines/detsched.py independent()); API-level log order and lock order '
    'are the same for all members of a class',
    'an epilogue that passed from some semaphore-value state is not re-run '
    'from the same state within a process (it is a function of that state)',
    'Condition/Event are built through a fake context whose Lock/RLock/'
    'Semaphore return billiard wrapper objects made as SemLock.__setstate__ '
    'makes them; Condition/Event/wrapper code itself runs unmodified',
    'wait_for and Barrier are not exercised (not in the statement)',
    'real: interleavings are whatever the OS produces; a broken lock is '
    'detected with high probability, not certainty; the C SemLock is only '
    'exercised here',
    'after each simulated program a fixed epilogue probes, by API-level '
    'observations only, that the object was left consistent: notify_all / '
    'set() rounds must wake every legit sleeper; then two fresh sleepers + '
    'one notify (exactly one wakes), a timed wait alone (False), notify_all '
    '(all wake); for Event is_set/clear/timed wait/set with two sleepers',
    'one logical thread without untimed waits runs on the harness thread '
    'itself (same scheduler semantics, one OS thread less)',
]
SHARDS = {'quick': 12, 'thorough': 16}


# ===========================================================================
# (a) Condition on the deterministic scheduler
# ===========================================================================

_COND_OPS = [['w', 0], ['w', 1], ['n'], ['na']]
_EVENT_OPS = [['s'], ['c'], ['i'], ['w', 0], ['w', 1]]

_SCHED_ELEM = st.sampled_from([0, 0, 0, 1, 1, 2, 3, 5])


def _sched():
    return st.integers(0, 70).flatmap(
        lambda n: st.lists(_SCHED_ELEM, min_size=n, max_size=n + 25))


def cond_cases():
    op = st.sampled_from([['w', 0], ['w', 0], ['w', 1], ['w', 1], ['w', 1],
                          ['n'], ['n'], ['n'], ['na']])
    return st.fixed_dictionaries({
        'lock': st.sampled_from(['rlock', 'rlock', 'rlock2', 'lock']),
        'threads': st.lists(st.lists(op, min_size=1, max_size=3),
                            min_size=2, max_size=5),
        'sched': _sched(),
    })


def event_cases():
    op = st.sampled_from([['s'], ['s'], ['c'], ['i'], ['w', 0], ['w', 0],
                          ['w', 1], ['w', 1], ['w', 1]])
    return st.fixed_dictionaries({
        'threads': st.lists(st.lists(op, min_size=1, max_size=3),
                            min_size=2, max_size=5),
        'sched': _sched(),
    })


def _inline_pick(threads):
    """One logical thread may run on the harness thread itself (one real
    thread less per case): the first whose script has no untimed wait, i.e.
    that can never legitimately sleep for ever (engine restriction)."""
    for tid, ops in enumerate(threads):
        if not any(op[0] == 'w' and not op[1] for op in ops):
            return tid
    return None


# Epilogues that passed, keyed by the complete state they started from (the
# values of the simulated semaphores; Condition/Event hold no other state).
# The epilogue is a deterministic function of that state, so re-running it
# from a state already probed in this process cannot tell anything new.
_EPILOGUE_OK = set()


class _Held:
    """`with cond:` nested `depth` times"""

    def __init__(self, cond, depth):
        self.cond, self.depth = cond, depth

    def __enter__(self):
        for _ in range(self.depth):
            self.cond.__enter__()

    def __exit__(self, *a):
        for _ in range(self.depth):
            self.cond.__exit__(*a)


def _cond_script(sched, cond, depth, tid, ops):
    def script():
        for k, op in enumerate(ops):
            if op[0] == 'w':
                wid = '%s.%d' % (tid, k)
                with _Held(cond, depth):
                    sched.log('enter', wid, bool(op[1]))
                    r = cond.wait(1.0 if op[1] else None)
                    sched.log('leave', wid, r)
            else:
                with _Held(cond, depth):
                    sched.log('nb', op[0])
                    if op[0] == 'n':
                        cond.notify()
                    else:
                        cond.notify_all()
                    sched.log('ne')
    return script


def _accepts(events, stuck_waits, check_stuck=True):
    """Nondeterministic specification automaton for a condition variable;
    exhaustive search over which waiter each notify() serves."""

    dead = set()      # (position, state) pairs already found hopeless

    def rec(i, active):
        key = (i, tuple(sorted(active.items())))
        if key in dead:
            return False
        if rec1(i, active):
            return True
        dead.add(key)
        return False

    def rec1(i, active):
        # active: wid -> (timed, token)
        while i < len(events):
            ev = events[i]
            if ev[0] == 'E':
                active = dict(active)
                active[ev[1]] = (ev[2], False)
            elif ev[0] == 'L':
                timed, tok = active[ev[1]]
                if ev[2] is True:
                    if not tok:
                        return False        # spurious / double-counted wake-up
                elif ev[2] is False:
                    if not timed:
                        return False        # untimed waiter returned False
                else:
                    return False
                active = dict(active)
                del active[ev[1]]
            elif ev[0] == 'NA':
                active = {w: (t, True) for w, (t, _) in active.items()}
            elif ev[0] == 'N':
                cands = [w for w, (_, tok) in active.items() if not tok]
                if cands:
                    for w in cands:
                        a2 = dict(active)
                        a2[w] = (a2[w][0], True)
                        if rec(i + 1, a2):
                            return True
                    return False
            i += 1
        if check_stuck:
            for w in stuck_waits:
                timed, tok = active[w]
                if timed or tok:
                    return False
        return True

    return rec(0, {})


def _cond_verdict(trace, sched, waitname):
    """(signature|None, detail, labels) for the trace so far + stuck set."""
    events = []
    open_wait = {}       # tid -> wid
    in_notify = {}       # tid -> kind
    active = set()
    labels = set()
    timedout = set()
    for ev in trace:
        if ev[0] == 'api':
            tid, what = ev[1], ev[2]
            if what == 'enter':
                events.append(('E', ev[3], ev[4]))
                open_wait[tid] = ev[3]
                active.add(ev[3])
            elif what == 'leave':
                events.append(('L', ev[3], ev[4]))
                open_wait.pop(tid, None)
                active.discard(ev[3])
                labels.add('wait_true' if ev[4] is True else 'wait_false')
            elif what == 'nb':
                events.append(('N',) if ev[3] == 'n' else ('NA',))
                in_notify[tid] = ev[3]
                if len(active) >= 2:
                    labels.add('notify_2waiters')
                if not active:
                    labels.add('notify_nobody')
            elif what == 'ne':
                in_notify.pop(tid, None)
        elif ev[3] == 'timeout' and ev[2] == waitname:
            labels.add('timeout_fired')
            timedout.add(ev[1])
        elif ev[1] in timedout:
            # the timed-out waiter's acknowledgement (its first semaphore
            # operation after the timeout) - unlike the position of the
            # timeout transition itself its place relative to the notifier's
            # operations is the same in all equivalent interleavings
            timedout.discard(ev[1])
            if any(t != ev[1] for t in in_notify):
                labels.add('timeout_in_notify')
    for lt in sched.threads:
        if lt.error is not None:
            kind = ('assert-fired' if isinstance(lt.error, AssertionError)
                    else 'raised-' + type(lt.error).__name__)
            return ('C17/cond/' + kind, 'thread %s: %r' % (lt.name, lt.error),
                    labels)
    stuck = sched.stuck()
    stuck_waits = []
    for lt in stuck:
        if lt.idx in in_notify:
            return ('C17/cond/notifier-stuck', 'thread %s never returns from '
                    'notify%s()' % (lt.name, '_all' if in_notify[lt.idx] == 'na'
                                    else ''), labels)
    for lt in stuck:
        if lt.idx in open_wait:
            op = lt.pending
            if lt.inline or (op is not None and op[0] == 'acq'
                             and op[1].name == waitname):
                # (a thread run inline has been unwound when it got stuck)
                stuck_waits.append(open_wait[lt.idx])
                continue
        return ('C17/cond/stuck-outside-wait', 'thread %s blocked on %s'
                % (lt.name, lt.pending and lt.pending[1].name), labels)
    if stuck_waits:
        labels.add('sleeper_left')
    if _accepts(events, stuck_waits):
        return None, '', labels
    if any(e[0] == 'L' and e[2] is False and
           not [x for x in events if x[0] == 'E' and x[1] == e[1]][0][2]
           for e in events):
        return ('C17/cond/untimed-false', 'an untimed wait returned False',
                labels)
    timed = {e[1] for e in events if e[0] == 'E' and e[2]}
    if any(w in timed for w in stuck_waits):
        return ('C17/cond/timed-stuck', 'a timed waiter is stuck', labels)
    if _accepts(events, stuck_waits, check_stuck=False):
        return ('C17/cond/lost-wakeup', 'waiter(s) %r still asleep although '
                'every explanation of the log gives them a wake-up'
                % (stuck_waits,), labels)
    return ('C17/cond/spurious-wakeup', 'a wait returned True without a '
            'notification of its own (or notify woke more than one)', labels)


def _fmt_trace(trace, limit=140):
    out = []
    for ev in trace[-limit:]:
        if ev[0] == 'api':
            out.append('t%s:%s' % (ev[1], ','.join(str(x) for x in ev[2:])))
        else:
            out.append('t%s %s.%s' % (ev[1], ev[2], ev[3]))
    return ' | '.join(out)


def run_cond(case, chooser=None):
    """-> (Outcome or None when the chooser abandoned the run, Scheduler)"""
    from engines.detsched import Scheduler, SimCtx
    kind = case.get('lock', 'rlock')
    depth = 2 if kind == 'rlock2' else 1
    sched = Scheduler()
    try:
        sctx = SimCtx(sched)
        cond = sctx.Condition(sctx.Lock() if kind == 'lock' else None)
        waitname = cond._wait_semaphore._semlock.name
        inl = _inline_pick(case['threads'])
        for tid, ops in enumerate(case['threads']):
            if tid != inl:
                sched.spawn(_cond_script(sched, cond, depth, tid, ops))
        sched.run([int(x) for x in case['sched']], chooser=chooser,
                  inline=None if inl is None else _cond_script(
                      sched, cond, depth, inl, case['threads'][inl]),
                  inline_name='t%s' % inl)
        if sched.pruned:
            return None, sched
        if sched.overrun:
            return inconclusive('step budget exhausted'), sched
        sig, detail, labels = _cond_verdict(sched.trace, sched, waitname)
        labels = set(labels)
        labels.add('threads=%d' % len(case['threads']))
        labels.add('lock=' + kind)
        nontrivial = bool(labels & {'timeout_in_notify', 'notify_2waiters'})
        memo = None
        if sig is None and not sched.stuck():
            memo = ('cond', kind, tuple(sl.value for sl in sctx.sems),
                    tuple(sl.count for sl in sctx.sems[:1]))
            if memo in _EPILOGUE_OK:
                return ok(nontrivial, sorted(labels)), sched
        if sig is None:
            # epilogue: was the condition left consistent?  Probes, each run
            # to quiescence with default scheduling before the next starts:
            #  X*  notify_all until the program's legit sleepers are gone (a
            #      woken thread may go on to its next wait, hence the rounds)
            #  W   [wait, timed wait, wait] and W2 [wait] go to sleep;
            #  N1  one notify(): exactly one of them may wake; if it is W it
            #      then times out alone (must return False) and sleeps again
            #  Y*  notify_all until nobody sleeps
            rounds = max(len(t) for t in case['threads'])
            steps = [('X%d' % i, [['na']]) for i in range(rounds)]
            steps += [('Xlast', None), ('W', [['w', 0], ['w', 1], ['w', 0]]),
                      ('W2', [['w', 0]]), ('N1', [['n']])]
            steps += [('Y%d' % i, [['na']]) for i in range(3)]
            steps.append(('Ylast', None))
            for name, ops in steps:
                if name[0] in 'XY' and not sched.stuck():
                    continue
                if ops is None:
                    sig, detail = ('C17/cond/lost-wakeup/epilogue', 'sleepers '
                                   'left after repeated notify_all (%s)' % name)
                    break
                script = _cond_script(sched, cond, depth, name, ops)
                if name in ('W', 'W2'):
                    # sleepers: real threads; they start (and, by the default
                    # rule, run until they sleep, W first) when N1 is run
                    sched.spawn(script, name)
                    continue
                sched.run_inline(script, name)   # notifiers: on this thread
                sig, detail, _ = _cond_verdict(sched.trace, sched, waitname)
                if sig is not None:
                    sig += '/epilogue'
                    detail = 'after the program, probe %s: %s' % (name, detail)
                    break
            if sig is None and sched.overrun:
                return inconclusive('step budget exhausted'), sched
            if sig is None and memo is not None:
                _EPILOGUE_OK.add(memo)
        if sig is not None:
            return bad(sig, detail + '\ntrace: ' + _fmt_trace(sched.trace),
                       labels=sorted(labels)), sched
        return ok(nontrivial, sorted(labels)), sched
    finally:
        sched.close()


def execute_cond(case):
    return run_cond(case)[0]


# ===========================================================================
# (a) Event
# ===========================================================================

def _event_script(sched, ev, tid, ops):
    def script():
        for k, op in enumerate(ops):
            oid = '%s.%d' % (tid, k)
            if op[0] == 'w':
                sched.log('b', oid, 'wt' if op[1] else 'w')
                r = ev.wait(1.0 if op[1] else None)
            elif op[0] == 's':
                sched.log('b', oid, 's')
                r = ev.set()
            elif op[0] == 'c':
                sched.log('b', oid, 'c')
                r = ev.clear()
            else:
                sched.log('b', oid, 'i')
                r = ev.is_set()
            sched.log('e', oid, r)
    return script


def _event_verdict(trace, sched, lockname, waitname):
    flag = False
    cur = {}          # tid -> op record
    labels = set()
    sleepers = {}     # op id -> record of waits sleeping in cond.wait
    holder = None     # op record holding the lock
    timedout = set()
    for pos, ev in enumerate(trace):
        if ev[0] == 'api':
            tid, what = ev[1], ev[2]
            if what == 'b':
                cur[tid] = {'id': ev[3], 'kind': ev[4], 'sections': 0,
                            'first': None, 'expected': None, 'pos1': None,
                            'tid': tid}
                if ev[4] == 'c':
                    labels.add('has_clear')
            else:
                op = cur.pop(tid)
                res = ev[4]
                if op['kind'] in ('s', 'c'):
                    continue
                if op['expected'] is None:
                    return ('C17/event/protocol', 'op %s returned without a '
                            'complete critical section' % op['id'], labels)
                if not any(res is x for x in op['expected']):
                    name = 'is_set' if op['kind'] == 'i' else 'wait'
                    return ('C17/event/%s-result' % name,
                            '%s %s returned %r, lock order allows %r'
                            % (name, op['id'], res, op['expected']), labels)
                if len(op['expected']) > 1:
                    labels.add('wait_result_racy')
                if op['kind'] != 'i':
                    labels.add('wait_true' if res else 'wait_false')
        elif ev[2] == lockname:
            op = cur.get(ev[1])
            if ev[3] == 'take' and op is not None:
                op['sections'] += 1
                holder = op
                k = op['kind']
                if k == 's':
                    flag = True
                    if len(sleepers) >= 2:
                        labels.add('set_2sleepers')
                    for o in sleepers.values():
                        o['set_after'] = True
                        o['cleared'] = False
                elif k == 'c':
                    flag = False
                    for o in sleepers.values():
                        o['cleared'] = True
                elif k == 'i':
                    op['expected'] = (flag,)
                elif op['sections'] == 1:
                    op['first'] = flag
                    if flag:
                        op['expected'] = (True,)
                    else:
                        sleepers[op['id']] = op
                elif op['sections'] == 2:
                    sleepers.pop(op['id'], None)
                    if not op['first']:
                        # the statement fixes the result only where "set
                        # before the deadline" is unambiguous at this level:
                        # never set while asleep -> False; set (and still set)
                        # and no timeout involved -> True.  A clear racing the
                        # wake-up, or a timeout that fired (it has no place
                        # relative to the set), leaves both answers open.
                        if not op.get('set_after'):
                            op['expected'] = (False,)
                        elif op.get('cleared') or op.get('timedout'):
                            op['expected'] = (True, False)
                        else:
                            op['expected'] = (True,)
                else:
                    return ('C17/event/protocol', 'wait %s took the lock three '
                            'times' % op['id'], labels)
            elif ev[3] == 'rel':
                holder = None
        elif ev[3] == 'timeout' and ev[2] == waitname:
            labels.add('timeout_fired')
            timedout.add(ev[1])
            if ev[1] in cur:
                cur[ev[1]]['timedout'] = True
        elif ev[1] in timedout:
            timedout.discard(ev[1])     # the acknowledgement, see run_cond
            if holder is not None and holder['kind'] == 's' \
                    and holder['tid'] != ev[1]:
                labels.add('timeout_in_set')
    for lt in sched.threads:
        if lt.error is not None:
            kind = ('assert-fired' if isinstance(lt.error, AssertionError)
                    else 'raised-' + type(lt.error).__name__)
            return ('C17/event/' + kind, 'thread %s: %r' % (lt.name, lt.error),
                    labels)
    stuck = sched.stuck()
    for lt in stuck:
        op = cur.get(lt.idx)
        if op is not None and op['kind'] == 's' and op['sections']:
            return ('C17/event/set-stuck', 'thread %s never returns from set()'
                    % lt.name, labels)
    for lt in stuck:
        op = cur.get(lt.idx)
        p = lt.pending
        if op is not None and op['kind'] == 'w' and op['sections'] == 1 \
                and op['first'] is False and p is not None \
                and p[1].name == waitname:
            if op.get('set_after'):
                return ('C17/event/lost-wakeup', 'untimed wait %s still asleep '
                        'although a set() was ordered after it went to sleep'
                        % op['id'], labels)
            labels.add('sleeper_left')
            continue
        if op is not None and op['kind'] == 'wt':
            return ('C17/event/timed-stuck', 'timed wait %s is stuck'
                    % op['id'], labels)
        return ('C17/event/stuck', 'thread %s blocked on %s'
                % (lt.name, p and p[1].name), labels)
    return None, '', labels


def run_event(case, chooser=None):
    from engines.detsched import Scheduler, SimCtx
    sched = Scheduler()
    try:
        sctx = SimCtx(sched)
        ev = sctx.Event()
        lockname = ev._cond._lock._semlock.name
        waitname = ev._cond._wait_semaphore._semlock.name
        inl = _inline_pick(case['threads'])
        for tid, ops in enumerate(case['threads']):
            if tid != inl:
                sched.spawn(_event_script(sched, ev, tid, ops))
        sched.run([int(x) for x in case['sched']], chooser=chooser,
                  inline=None if inl is None else _event_script(
                      sched, ev, inl, case['threads'][inl]),
                  inline_name='t%s' % inl)
        if sched.pruned:
            return None, sched
        if sched.overrun:
            return inconclusive('step budget exhausted'), sched
        sig, detail, labels = _event_verdict(sched.trace, sched, lockname,
                                             waitname)
        labels = set(labels)
        labels.add('threads=%d' % len(case['threads']))
        nontrivial = bool(labels & {'timeout_in_set', 'set_2sleepers'})
        memo = None
        if sig is None and not sched.stuck():
            memo = ('event', tuple(sl.value for sl in sctx.sems),
                    tuple(sl.count for sl in sctx.sems[:1]))
            if memo in _EPILOGUE_OK:
                return ok(nontrivial, sorted(labels)), sched
        if sig is None:
            # legit sleepers first: every set() must wake all of them (a
            # woken thread may clear and wait again, hence the rounds)
            steps = [('X%d' % i, [['s']])
                     for i in range(max(len(t) for t in case['threads']))]
            steps.append(('Xlast', []))
            # P2 clears and sleeps; P probes alone (is_set, clear, timed wait
            # that must be False) and sleeps too; one set() by S must wake
            # both with True (P2, the older thread, re-reads before P goes on
            # to clear); P: wait while set, clear, timed wait (False again)
            steps += [('P2', [['c'], ['w', 0]]),
                      ('P', [['i'], ['c'], ['i'], ['w', 1], ['w', 0], ['i'],
                             ['w', 0], ['w', 1], ['c'], ['w', 1], ['i']]),
                      ('S', [['s'], ['i']])]
            for name, ops in steps:
                if name[0] == 'X' and not sched.stuck():
                    continue
                if name == 'Xlast':
                    sig, detail = ('C17/event/lost-wakeup/epilogue',
                                   'sleepers left after %d set() rounds'
                                   % (len(steps) - 4))
                    break
                script = _event_script(sched, ev, name, ops)
                if name in ('P', 'P2'):
                    sched.spawn(script, name)    # sleepers: real threads
                    continue
                sched.run_inline(script, name)
                sig, detail, _ = _event_verdict(sched.trace, sched, lockname,
                                                waitname)
                if sig is None and sched.stuck() and name[0] != 'X':
                    sig, detail = ('C17/event/lost-wakeup',
                                   'epilogue: sleeper not woken')
                if sig is not None:
                    sig += '/epilogue'
                    detail = 'after the program, probe %s: %s' % (name, detail)
                    break
            if sig is None and sched.overrun:
                return inconclusive('step budget exhausted'), sched
            if sig is None and memo is not None:
                _EPILOGUE_OK.add(memo)
        if sig is not None:
            return bad(sig, detail + '\ntrace: ' + _fmt_trace(sched.trace),
                       labels=sorted(labels)), sched
        return ok(nontrivial, sorted(labels)), sched
    finally:
        sched.close()


def execute_event(case):
    return run_event(case)[0]


# ===========================================================================
# exhaustive enumeration
# ===========================================================================

def _scripts(alphabet, maxlen):
    out = [[op] for op in alphabet]
    if maxlen >= 2:
        out += [[a, b] for a in alphabet for b in alphabet]
    return out


def programs2(alphabet):
    """every unordered pair of scripts with 1..2 ops (threads are symmetric)"""
    s = _scripts(alphabet, 2)
    return [[s[i], s[j]] for i in range(len(s)) for j in range(i, len(s))]


def programs3(alphabet, two=True):
    """3 threads: unordered triples of one-op scripts, plus (two=True) the
    programs in which one of the three threads has two ops"""
    one = _scripts(alphabet, 1)
    twos = [x for x in _scripts(alphabet, 2) if len(x) == 2]
    out = []
    for i in range(len(one)):
        for j in range(i, len(one)):
            for k in range(j, len(one)):
                out.append([one[i], one[j], one[k]])
    if two:
        for i in range(len(one)):
            for j in range(i, len(one)):
                for t in twos:
                    out.append([one[i], one[j], t])
    return out


class _Enumerator:
    """Feeds ctx.enumerate with (program, schedule) cases produced by DFS.
    The DFS has to run a schedule to learn its branching, so the outcome is
    kept and handed to ctx.enumerate instead of running the case twice."""

    def __init__(self, ctx, runner, base, programs, bound=None, limit=None,
                 por=True):
        self.ctx, self.runner, self.base = ctx, runner, base
        self.programs, self.bound, self.limit = programs, bound, limit
        self.por = por
        self.last_case = self.last_out = None
        self.truncated = 0
        self.abandoned = 0
        self.nprog = 0

    def _mine(self):
        from engines.detsched import dfs
        ctx = self.ctx
        for idx, prog in enumerate(self.programs):
            if idx % ctx.nshards != ctx.shard:
                continue
            self.nprog += 1

            def run(chooser, prog=prog):
                case = dict(self.base, threads=prog, sched=[])
                out, sched = self.runner(case, chooser)
                return sched, out

            for sched, out in dfs(run, self.bound, self.limit, self.por):
                if sched is None:
                    self.truncated += bool(out.get('truncated'))
                    self.abandoned += out['abandoned']
                    break
                while sched and sched[-1] == 0:
                    sched.pop()
                case = dict(self.base, threads=prog, sched=sched)
                self.last_case, self.last_out = case, out
                yield case

    def cases(self):
        # ctx.enumerate executes item i only when i % nshards == shard: put
        # this shard's cases on this shard's indices
        ctx = self.ctx
        for case in self._mine():
            for _ in range(ctx.shard):
                yield None
            yield case
            for _ in range(ctx.nshards - ctx.shard - 1):
                yield None

    def execute(self, case):
        if case is self.last_case:
            return self.last_out
        return self.runner(case)[0]


# ===========================================================================
# (b) the real primitives
# ===========================================================================

def real_cases():
    def build(kind, n, procs, threads, iters, depth, hold, method):
        threads = max(1, min(threads, 8 // procs))
        if procs * threads < 2:
            procs = 2
        return {'kind': kind, 'n': n if kind in ('sem', 'bsem') else 1,
                'procs': procs, 'threads': threads, 'iters': iters,
                'depth': depth if kind == 'rlock' else 1, 'hold': hold,
                'method': method}
    return st.builds(
        build,
        st.sampled_from(['lock', 'rlock', 'sem', 'bsem']),
        st.integers(1, 3), st.sampled_from([1, 2, 2, 3, 4, 4]),
        st.sampled_from([1, 1, 2, 2, 3, 4]),
        st.sampled_from([60, 150, 300]), st.integers(1, 3),
        st.sampled_from([0, 0, 20, 200]),
        st.sampled_from(['fork', 'fork', 'fork', 'fork', 'fork', 'spawn']))


class _TrackerWatch:
    """The spawn start method makes billiard launch a semaphore-tracker
    helper process that lives as long as its pipe; remember its pid so that
    the case can end it (nothing may outlive a case)."""

    def __enter__(self):
        from billiard import semaphore_tracker as st_mod
        self.mod = st_mod
        self.pids = []
        self.orig = st_mod.spawnv_passfds

        def spawnv(*a, **kw):
            pid = self.orig(*a, **kw)
            self.pids.append(pid)
            return pid
        st_mod.spawnv_passfds = spawnv
        return self

    def __exit__(self, *exc):
        import gc
        self.mod.spawnv_passfds = self.orig
        gc.collect()                 # run the semaphores' unlink finalizers
        tr = self.mod._semaphore_tracker
        with tr._lock:
            fd, tr._fd = tr._fd, None
        if fd is not None and self.pids:
            os.close(fd)
        elif fd is not None:
            tr._fd = fd              # not ours: started before this case
        for pid in self.pids:
            deadline = time.monotonic() + 20
            while True:
                got, _ = os.waitpid(pid, os.WNOHANG)
                if got:
                    break
                if time.monotonic() > deadline:
                    os.kill(pid, 9)
                    os.waitpid(pid, 0)
                    break
                time.sleep(0.005)
        return False


def real_fixed(seed):
    """quick tier: a fixed spread over the four kinds, 2-8 parties, process /
    thread mixes; iteration counts vary with the seed"""
    rows = [('lock', 1, 2, 1, 1, 0, 'fork'), ('lock', 1, 1, 2, 1, 200, 'fork'),
            ('lock', 1, 4, 2, 1, 20, 'fork'), ('lock', 1, 3, 1, 1, 20, 'spawn'),
            ('rlock', 1, 2, 2, 2, 20, 'fork'), ('rlock', 1, 3, 1, 3, 0, 'fork'),
            ('rlock', 1, 1, 3, 2, 200, 'fork'),
            ('sem', 2, 4, 1, 1, 20, 'fork'), ('sem', 3, 2, 3, 1, 200, 'fork'),
            ('bsem', 2, 3, 2, 1, 20, 'fork'), ('bsem', 1, 2, 1, 1, 20, 'fork'),
            ('bsem', 3, 8, 1, 1, 20, 'fork')]
    return [{'kind': k, 'n': n, 'procs': p, 'threads': t, 'depth': d,
             'hold': h, 'method': m, 'iters': 60 + 30 * ((seed + i) % 4)}
            for i, (k, n, p, t, d, h, m) in enumerate(rows)]


def execute_real(case):
    with _TrackerWatch():
        return _execute_real(case)


def _execute_real(case):
    import billiard
    from engines import targets_c17 as tg
    kind, n = case['kind'], case['n']
    procs, threads = case['procs'], case['threads']
    parties = procs * threads
    bctx = billiard.get_context(case.get('method', 'fork'))
    if kind == 'lock':
        prim = bctx.Lock()
    elif kind == 'rlock':
        prim = bctx.RLock()
    elif kind == 'sem':
        prim = bctx.Semaphore(n)
    else:
        prim = bctx.BoundedSemaphore(n)
    tmp = tempfile.mkdtemp(prefix='c17-')
    ps = []
    board = None
    try:
        path = os.path.join(tmp, 'board')
        board = tg.Board.create(path, parties)
        for p in range(procs):
            pr = bctx.Process(target=tg.party_main, args=(
                prim, path, parties, p * threads, threads, n, case['iters'],
                case['depth'], case['hold']))
            pr.daemon = True
            pr.start()
            ps.append(pr)
        deadline = time.monotonic() + 60
        while not board.all_ready() and time.monotonic() < deadline:
            if any(not pr.is_alive() for pr in ps):
                break
            time.sleep(0.002)
        board.go()
        for pr in ps:
            pr.join(max(0.1, deadline + 60 - time.monotonic()))
        if any(pr.is_alive() for pr in ps):
            return inconclusive('parties still running after 120 s')
        rows = board.rows()
        codes = [pr.exitcode for pr in ps]
    finally:
        for pr in ps:
            if pr.is_alive():
                pr.terminate()
                pr.join(5)
                if pr.is_alive():
                    os.kill(pr.pid, 9)
                    pr.join(5)
        if board is not None:
            board.close()
        shutil.rmtree(tmp, ignore_errors=True)
        del ps[:]
        prim = pr = None
    labels = ['kind=' + kind, 'parties=%d' % parties,
              'procs=%d' % procs, 'method=' + case.get('method', 'fork')]
    if any(c != 0 for c in codes):
        return bad('C17/real/party-crashed', 'exit codes %r' % (codes,))
    over = sum(r['viol'] for r in rows)
    if over:
        return bad('C17/real/too-many-holders/' + kind,
                   '%d observations of more than %d holder(s) inside; max seen '
                   '%d' % (over, n, max(r['maxin'] for r in rows)),
                   labels=labels)
    if any(r['status'] == tg.ST_RAISED for r in rows):
        return bad('C17/real/raised/' + kind, 'acquire/release raised in a party',
                   labels=labels)
    if any(r['status'] != tg.ST_DONE for r in rows):
        return inconclusive('a party gave up waiting (status %r)'
                            % [r['status'] for r in rows], labels)
    contended = sum(r['contended'] for r in rows)
    maxin = max(r['maxin'] for r in rows)
    if contended:
        labels.append('contended')
    if maxin >= 2:
        labels.append('seen_inside>=2')
    if n >= 2 and maxin >= n:
        labels.append('seen_full')
    nontrivial = contended > 0 and (n == 1 or maxin >= 2)
    return ok(nontrivial, labels)


def seq_cases():
    a, r = ['a', 0], ['r', 0]
    ot, op_ = ['o', 0], ['o', 1]

    def ops(kind):
        if kind == 'rlock':
            # take it k times, then give it back one at a time with another
            # party probing after every release (refused until the k-th), and
            # a short random tail
            probe = st.sampled_from([ot, ot, ot, op_])
            tail = st.lists(st.sampled_from([a, r, ot]), max_size=4)
            return st.integers(1, 4).flatmap(lambda k: st.tuples(
                st.lists(probe, min_size=k, max_size=k), tail).map(
                    lambda pt: [a] * k + [x for pr in pt[0] for x in (r, pr)]
                    + pt[1]))
        el = st.sampled_from([a, a, a, r, r, r, r, ot, ot, ot, ot, op_])
        return st.lists(el, min_size=1, max_size=14)

    return st.sampled_from(['bsem', 'bsem', 'sem', 'rlock', 'rlock', 'lock']) \
        .flatmap(lambda kind: st.fixed_dictionaries({
            'kind': st.just(kind), 'n': st.integers(1, 4), 'ops': ops(kind)}))


def execute_seq(case):
    """One owner thread drives the primitive; op 'o' asks another party (a
    thread of this process, or a forked process) to try a non-blocking
    acquire and release it again if it got it."""
    import threading
    import billiard
    bctx = billiard.get_context('fork')
    kind, n = case['kind'], case['n']
    if kind == 'bsem':
        prim = bctx.BoundedSemaphore(n)
    elif kind == 'sem':
        prim = bctx.Semaphore(n)
    elif kind == 'rlock':
        prim, n = bctx.RLock(), 1
    else:
        prim, n = bctx.Lock(), 1
    value = n          # model: free units
    held = 0           # model: acquisitions by the owner (rlock depth)
    partial = False    # rlock: some, not all, acquisitions were given back
    labels = set(['kind=' + kind])

    def other_thread():
        box = []

        def f():
            got = prim.acquire(False)
            if got:
                prim.release()
            box.append(got)
        t = threading.Thread(target=f)
        t.start()
        t.join()
        return box[0]

    def other_process():
        # a billiard Process, so that the after-fork hook that disowns
        # inherited locks runs as it does for every real worker
        from engines import targets_c17 as tg
        pr = bctx.Process(target=tg.probe_main, args=(prim,))
        pr.start()
        pr.join(60)
        if pr.is_alive():
            pr.terminate()
            pr.join(5)
            return None
        return {tg.PROBE_GOT: True, tg.PROBE_REFUSED: False}.get(pr.exitcode)

    for i, op in enumerate(case['ops']):
        what = op[0]
        if what == 'a':
            got = prim.acquire(False)
            if kind == 'rlock':
                if got is not True:
                    return bad('C17/seq/rlock-reacquire', 'owner could not '
                               're-acquire its RLock at op %d' % i)
                held += 1
                partial = False
            else:
                if got and value <= 0:
                    return bad('C17/seq/over-admission/' + kind,
                               'acquire #%d succeeded with no unit free '
                               '(n=%d)' % (i, n))
                if not got and value > 0:
                    return bad('C17/seq/refused/' + kind, 'acquire refused '
                               'with %d unit(s) free' % value)
                if got:
                    value -= 1
                    held += 1
                else:
                    labels.add('acquire_refused')
        elif what == 'r':
            if kind == 'rlock':
                if held == 0:
                    continue      # releasing an unowned RLock: not in scope
                prim.release()
                held -= 1
                partial = held >= 1
            elif kind == 'lock':
                if held == 0:
                    continue      # statement speaks of bounded semaphores only
                prim.release()
                held -= 1
                value += 1
            elif kind == 'bsem':
                try:
                    prim.release()
                except ValueError:
                    if value < n:
                        return bad('C17/seq/bounded-refused-valid-release',
                                   'release raised ValueError with %d of %d '
                                   'units free' % (value, n))
                    labels.add('over_release_refused')
                else:
                    if value >= n:
                        return bad('C17/seq/bounded-over-release',
                                   'release #%d accepted with all %d units '
                                   'free' % (i, n))
                    value += 1
                    held = max(0, held - 1)
            else:
                if value >= n + 3:
                    continue
                prim.release()
                value += 1
                held = max(0, held - 1)
                if value > n:
                    labels.add('sem_grown')
        else:
            got = other_process() if op[1] else other_thread()
            if got is None:
                return bad('C17/seq/other-party-crashed', 'probe child died')
            if kind == 'rlock':
                free = held == 0
            else:
                free = value > 0
            if got and not free:
                return bad('C17/seq/over-admission/' + kind,
                           'another %s acquired at op %d although %s'
                           % ('process' if op[1] else 'thread', i,
                              'the owner still holds it %d time(s)' % held
                              if kind == 'rlock' else 'no unit is free'))
            if not got and free:
                return bad('C17/seq/refused/' + kind, 'another party was '
                           'refused although the primitive is free (op %d)' % i)
            if not got:
                labels.add('other_refused')
                if kind == 'rlock' and held >= 1:
                    labels.add('rlock_partial_release_holds' if partial
                               else 'rlock_held')
    nontrivial = bool(labels & {'over_release_refused', 'other_refused',
                                'acquire_refused'})
    return ok(nontrivial, sorted(labels))


PARTS = {'cond': execute_cond, 'event': execute_event,
         'cond_dfs2': execute_cond, 'event_dfs2': execute_event,
         'cond_dfs3': execute_cond, 'event_dfs3': execute_event,
         'real': execute_real,
         'seqsem': execute_seq}


class _Budget(Exception):
    """ends a generated part when its time budget is used up"""


def _explore(ctx, part, strategy, execute, n, cap, **kw):
    """ctx.explore with a time budget that really ends the part: vlib's own
    time_cap stops executing but lets Hypothesis generate the remaining
    examples, which costs as much as running them on a busy box.  Never cuts
    in once a violation has been seen (its shrinking must go on)."""
    if not ctx.wants(part):
        return
    t0 = time.time()
    state = {'stop': False, 'violated': False}

    def ex(case):
        if not state['violated'] and (state['stop'] or
                                      time.time() - t0 > cap):
            state['stop'] = True
            raise _Budget()
        out = execute(case)
        if out.violated:
            state['violated'] = True
        return out

    try:
        ctx.explore(part, strategy, ex, n=n, **kw)
    except _Budget:
        p = ctx.part(part)
        p.budget_cut = True
        p.wall += time.time() - t0


def run(ctx):
    thorough = ctx.tier == 'thorough'

    def note(e):
        ctx.notes['dfs_runs_abandoned_as_redundant'] = \
            ctx.notes.get('dfs_runs_abandoned_as_redundant', 0) + e.abandoned
        ctx.notes['dfs_programs'] = ctx.notes.get('dfs_programs', 0) + e.nprog

    for lock in (['rlock', 'lock', 'rlock2'] if thorough else ['rlock']):
        e = _Enumerator(ctx, run_cond, {'lock': lock}, programs2(_COND_OPS))
        ctx.enumerate('cond_dfs2', e.cases(), e.execute)
        note(e)
    e = _Enumerator(ctx, run_event, {}, programs2(_EVENT_OPS))
    ctx.enumerate('event_dfs2', e.cases(), e.execute)
    note(e)
    # the generated parts are time-capped (a cut is recorded as budget_cut,
    # never a violation): a context switch costs 30 us on an idle box and
    # milliseconds on a busy one
    _explore(ctx, 'cond', cond_cases(), execute_cond, ctx.pick(200, 30000),
             ctx.pick(10, 180))
    _explore(ctx, 'event', event_cases(), execute_event, ctx.pick(160, 20000),
             ctx.pick(8, 120))
    _explore(ctx, 'seqsem', seq_cases(), execute_seq, ctx.pick(15, 1500),
             ctx.pick(5, 40))
    if thorough:
        _explore(ctx, 'real', real_cases(), execute_real, 40, 100,
                 shrink_budget=0, reexecute_confirm=2)
    else:
        ctx.enumerate('real', real_fixed(ctx.seed), execute_real,
                      complete_is_exhaustive=False)
    # three threads: quick = Condition, one op per thread; thorough adds Event
    # and the programs in which one thread has two ops.  No preemption bound
    # (sleep sets make the full enumeration affordable); a per-program cap of
    # 30000 runs and a time cap guard the budget - the part is exhaustive
    # only if neither cut in.
    for part, runner, alphabet in (('cond_dfs3', run_cond, _COND_OPS),
                                   ('event_dfs3', run_event, _EVENT_OPS)):
        if part == 'event_dfs3' and not thorough:
            continue
        e = _Enumerator(ctx, runner,
                        {'lock': 'rlock'} if runner is run_cond else {},
                        programs3(alphabet, two=thorough), limit=30000)
        ctx.enumerate(part, e.cases(), e.execute,
                      time_cap=None if not thorough else 150)
        note(e)
        if e.truncated and ctx.wants(part):
            ctx.part(part).exhaustive = False
            ctx.notes[part + '_programs_truncated'] = e.truncated
