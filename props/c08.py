"""C08 - terminate() and termination signals always end workers promptly."""
from engines import realparts as rp

LEVEL = 'exploration'
RULE = ('real: generated scenarios on real pools in watchdogged child processes: '
        'pool size 1-4, threads on/off, workers idle / inside task code (sleep) / '
        'inside a task that swallows BaseException for 2.5 s, 0-8 queued jobs, 0-3 '
        'results delivered before the call; action in {terminate, terminate twice, '
        'del pool + gc, terminate_job(pid), SIGTERM sent to a worker while a marker '
        'file proves it is inside its task, a 1 s hard time limit on a running '
        'task followed by terminate()}; optionally the task feeder sits inside a '
        'lazily produced imap whose input stalls for 6 s; optionally 2-3 idle workers are told '
        'to exit just before (supervisor busy replacing them, slow on_process_up), '
        'or the call lands inside a replacement\'s 1 s Process.start() (listed in '
        'the pool, no process yet). Non-trivial: >=1 worker inside task '
        'code at the moment of the call, or the feeder inside a lazy imap. Distinct = canonical JSON of the case.')
ASSUMPTIONS = [
    'terminate() with an in-flight job takes ~7 s by design (result handler '
    'drains until its 5 s all-workers-gone timeout); bound used: 45 s, watchdog '
    '75 s; a watchdog kill counts only if the main thread is inside terminate()',
    'external signals are sent only while a marker file proves the task is '
    'inside its sleep (crash points self-inflicted or proven, E3 rule 1)',
    'OS scheduling decides the interleaving; failures must reproduce 2 more '
    'times before they count (hangs excepted, they are diagnosed from stacks)',
]
SHARDS = {'quick': 8, 'thorough': 16}
WALL_LIMIT = {'quick': 1500, 'thorough': 6 * 3600}

PARTS = {'real': rp.execute_c08}
EXPLORE = {'real': (rp.c08_cases(), rp.execute_c08)}


def run(ctx):
    ctx.explore('real', rp.c08_cases(), rp.execute_c08, n=ctx.pick(4, 40),
                shrink_budget=6, reexecute_confirm=2)
