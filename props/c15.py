"""C15 - shared ctypes values are isolated, initialised, visible and atomic.

Parts
  hist     generated histories of create / write / slice-write / drop
           (scribble 0xFF over the object, delete, gc) / create again on a
           fresh heap, checked after every op against a model dict
           (initial value, zero fill also on recycled dirty storage, isolation,
           pairwise disjoint address ranges), followed by a child-process
           round trip under fork over all live objects
  xstart   the same histories with every object (and lock) made for the
           spawn or forkserver context and the round trip under that method
  contend  P processes x M read-modify-write increments made while holding
           the object's lock; final value == P*M, arrays per index
"""
import ctypes
import gc
import os
import signal
import time

from hypothesis import strategies as st

from vlib.core import bad, inconclusive, ok

from engines import targets_c15 as T

LEVEL = 'exploration'
RULE = ('hist/xstart: a history is 2-5 creates, then 6-30 chunks of 1-3 ops [new '
        'kind type lock init | write obj elem field value | slice-write | drop '
        'obj | drop,new | drop,new,write | drop,drop,new], then one more create, '
        'over 19 element types (12 type codes, 5 ctypes scalar types, '
        'c_ubyte*3, a module-level Structure) x {Value, RawValue, Array, '
        'RawArray} x 6 lock variants, array length 0-64 (and 150/300/450/520, around one arena) or an initialiser '
        'list of 0-24 (full or partial) elements, on a fresh Heap per case; '
        'then a child round trip (child reads, child writes 1-6, parent '
        'reads, parent writes 1-6, child reads, join, parent reads) under fork '
        '(hist) or spawn/forkserver (xstart). hist draws half of its cases '
        'from a Hypothesis strategy over that structure and half from a '
        'seeded random builder of the same structure (one generated integer '
        'per case); xstart and contend use the seeded builder only. A history '
        'case is non-trivial when a create landed on recycled storage (its '
        'address range intersects a range that a dropped, 0xFF-scribbled '
        'object occupied) AND the round trip completed with >=1 child write '
        'and >=1 parent write. contend: P in 2-8 processes (quick tier: 2-3 under spawn/forkserver) x M in 200-2000 (quick: 200-800) '
        'increments (value, Structure field, or array indices) while holding '
        'the lock in one of 4 ways, lock in {default RLock, True, ctx.Lock, '
        'ctx.RLock}; non-trivial when >=2 processes made increments. '
        'Distinct = distinct canonical JSON of the case.')
ASSUMPTIONS = [
    'object addresses and sizes are read with ctypes.addressof/sizeof on the '
    'ctypes object (get_obj() of a synchronized wrapper)',
    'each case runs on a fresh billiard.heap.Heap installed as '
    'BufferWrapper._heap (restored afterwards), so recycling is a '
    'deterministic function of the case',
    'lost updates under a broken lock are schedule dependent: contention runs '
    'detect them with high probability, not certainty',
    'objects that go to a spawn/forkserver child are created with that '
    'context (ctx=...) and explicit locks come from that context: a lock '
    'made for the fork context cannot be carried by the other start methods',
    'the forkserver and semaphore-tracker helper processes started by an '
    'xstart/contend case are stopped and reaped by the harness at the end of '
    'the case',
    'a contention run first forces one interleaving (parent holds the lock, '
    'reads, lets a child attempt a locked increment for 0.5 s, writes read+1, '
    'releases): this detects a lock that does not exclude other processes '
    'deterministically; the free-running increments stop at a time budget '
    'and the expected totals follow the counts the children report',
    'sensitivity (quick tier, seed 1): 8/8 mutants killed - value-no-memset, '
    'array-no-memset, wrapper-not-kept, block-too-short, arena-map-private, '
    'semlock-enter-noop, wrapper-enter-noop, reduce-drops-lock',
]
SHARDS = {'quick': 8, 'thorough': 16}

KINDS = ['Value', 'RawValue', 'Array', 'RawArray']
# lock variants: default (ctx given) | True | False | ctx.Lock() | ctx.RLock()
# | default without ctx (fork only; elsewhere same as 0)
N_LOCKMODES = 6
NT = len(T.TYPE_NAMES)

_RAW = st.one_of(st.integers(0, T.M64), st.integers(0, 4096))

_INIT_VALUE = st.one_of(
    st.none(),
    st.lists(_RAW, min_size=0, max_size=3).map(lambda l: ['v', l]))
_INIT_ARRAY = st.one_of(
    # (a few arrays that fill most of / more than one 4 KiB arena, so that
    # freed and live blocks of very different sizes share an arena)
    st.sampled_from([0, 1, 2, 3, 7, 8, 9, 16, 33, 64, 150, 300, 450,
                     520]).map(lambda n: ['n', n]),
    st.integers(0, 64).map(lambda n: ['n', n]),
    st.tuples(st.lists(_RAW, min_size=0, max_size=24), st.integers(0, 1)).map(
        lambda t: ['l', t[0], t[1]]))

_NEW = st.tuples(st.just('new'), st.integers(0, 3), st.integers(0, NT - 1),
                 st.integers(0, N_LOCKMODES - 1), _INIT_VALUE, _INIT_ARRAY)
_WRITE = st.tuples(st.just('w'), st.integers(0, 63), st.integers(0, 63),
                   st.integers(0, 2), _RAW, st.integers(0, 1))
_WSLICE = st.tuples(st.just('ws'), st.integers(0, 63), st.integers(0, 63),
                    st.lists(_RAW, min_size=0, max_size=8))
_DROP = st.tuples(st.just('drop'), st.integers(0, 63))
_L = lambda strat: strat.map(list)      # noqa: E731
# a chunk is 1-3 consecutive ops; drop-then-create chunks make recycling common
_CHUNK = st.one_of(
    st.tuples(_L(_NEW)), st.tuples(_L(_NEW)), st.tuples(_L(_WRITE)),
    st.tuples(_L(_WRITE)), st.tuples(_L(_WSLICE)), st.tuples(_L(_DROP)),
    st.tuples(_L(_DROP), _L(_NEW)), st.tuples(_L(_DROP), _L(_NEW), _L(_WRITE)),
    st.tuples(_L(_DROP), _L(_DROP), _L(_NEW)),
).map(list)
_XW = st.tuples(st.integers(0, 63), st.integers(0, 63), st.integers(0, 2),
                _RAW, st.integers(0, 1)).map(list)


def hist_cases(methods):
    return st.fixed_dictionaries({
        'method': st.sampled_from(methods),
        'first': st.lists(_NEW.map(list), min_size=2, max_size=5),
        'ops': st.lists(_CHUNK, min_size=6, max_size=30),
        # always executed last, so that something is live for the round trip
        'last': _NEW.map(list),
        'cw': st.lists(_XW, min_size=1, max_size=6),
        'pw': st.lists(_XW, min_size=1, max_size=6),
    })


# Seeded builders for the parts that can afford only a few (expensive) cases:
# Hypothesis starts every run with its minimal example and stays small for the
# first dozens, so there the case is built from one generated integer instead.

def _rand_raw(rnd):
    return rnd.getrandbits(64) if rnd.random() < 0.7 else rnd.randrange(4097)


def _rand_new(rnd):
    init_v = None if rnd.random() < 0.4 else \
        ['v', [_rand_raw(rnd) for _ in range(rnd.randrange(4))]]
    if rnd.random() < 0.5:
        init_a = ['n', rnd.choice([0, 1, 2, 3, 7, 8, 9, 16, 33, 64, 150, 300,
                                   450, 520, rnd.randrange(65)])]
    else:
        init_a = ['l', [_rand_raw(rnd) for _ in range(rnd.randrange(25))],
                  rnd.randrange(2)]
    return ['new', rnd.randrange(4), rnd.randrange(NT),
            rnd.randrange(N_LOCKMODES), init_v, init_a]


def _rand_write(rnd):
    return ['w', rnd.randrange(64), rnd.randrange(64), rnd.randrange(3),
            _rand_raw(rnd), rnd.randrange(2)]


def rand_hist_case(seed, methods):
    import random
    rnd = random.Random(seed)
    ops = []
    for _ in range(rnd.randrange(8, 31)):
        k = rnd.randrange(9)
        if k < 2:
            ops.append([_rand_new(rnd)])
        elif k < 4:
            ops.append([_rand_write(rnd)])
        elif k == 4:
            ops.append([['ws', rnd.randrange(64), rnd.randrange(64),
                         [_rand_raw(rnd) for _ in range(rnd.randrange(9))]]])
        elif k == 5:
            ops.append([['drop', rnd.randrange(64)]])
        elif k == 6:
            ops.append([['drop', rnd.randrange(64)], _rand_new(rnd)])
        elif k == 7:
            ops.append([['drop', rnd.randrange(64)], _rand_new(rnd),
                        _rand_write(rnd)])
        else:
            ops.append([['drop', rnd.randrange(64)],
                        ['drop', rnd.randrange(64)], _rand_new(rnd)])
    return {
        'method': rnd.choice(methods),
        'first': [_rand_new(rnd) for _ in range(rnd.randrange(2, 6))],
        'ops': ops,
        'last': _rand_new(rnd),
        'cw': [_rand_write(rnd)[1:] for _ in range(rnd.randrange(1, 7))],
        'pw': [_rand_write(rnd)[1:] for _ in range(rnd.randrange(1, 7))],
    }


def rand_contend_case(seed, methods, mmax, budget_s, pmax=8):
    import random
    rnd = random.Random(seed)
    nproc = rnd.choice([p for p in [2, 3, 4, 4, 6, 8] if p <= pmax])
    return {
        'method': rnd.choice(methods),
        'target': rnd.randrange(len(_CTARGETS)),
        'lock': rnd.choice([0, 1, 3, 4]),
        'how': rnd.randrange(4),
        'raw_body': rnd.randrange(2),
        'm': rnd.randrange(200, mmax + 1),
        # children stop incrementing after this many seconds and report how
        # far they got; the expected totals follow their reports
        'budget_s': budget_s,
        # how long the parent keeps the lock after the probed child announced
        # its attempt (forced interleaving)
        'grace_s': 0.5,
        'length': rnd.randrange(1, 9),
        'procs': [[rnd.randrange(8) for _ in range(rnd.randrange(1, 5))]
                  for _ in range(nproc)],
    }


def seeded(builder, salt, *args):
    from vlib.core import derive_seed
    return st.integers(0, 2 ** 31 - 1).map(
        lambda x: builder(derive_seed(salt, x), *args))


# ---------------------------------------------------------------------------
# helpers
# ---------------------------------------------------------------------------

class _Live:
    __slots__ = ('obj', 'tname', 'kind', 'is_array', 'vals', 'addr', 'size',
                 'lockmode')


def _raw(obj):
    return obj.get_obj() if hasattr(obj, 'get_obj') else obj


def _fresh_elem(fields, r, nfields=None):
    """element values built from one raw int; fields beyond nfields are zero"""
    out = []
    for j, (_, prim) in enumerate(fields):
        if nfields is None or j < nfields:
            out.append(T.mkval(prim, T.mix(r, j)))
        else:
            out.append(T.zero(prim))
    return out


def _build(ctx, method, op):
    """-> (callable creating the object, expected element list, is_array,
    zero_expected: the statement's 'none given' case (whole object zero),
    kind, tname, lockmode, partial: an initialiser that leaves some fields
    of a composite to their default)"""
    from billiard import sharedctypes as sc
    _, kind_i, tidx, lockmode, init_v, init_a = op
    kind = KINDS[kind_i % 4]
    tname = T.TYPE_NAMES[tidx % NT]
    targ, shape, fields = T.TYPES[tname]
    is_array = kind in ('Array', 'RawArray')
    kw = {}
    if kind in ('Value', 'Array'):
        lockmode %= N_LOCKMODES
        if lockmode == 5 and method != 'fork':
            lockmode = 0
        if lockmode == 0:
            kw = {'ctx': ctx}
        elif lockmode == 1:
            kw = {'lock': True, 'ctx': ctx}
        elif lockmode == 2:
            kw = {'lock': False}
        elif lockmode == 3:
            kw = {'lock': ctx.Lock()}
        elif lockmode == 4:
            kw = {'lock': ctx.RLock()}
    else:
        lockmode = 2
    if not is_array:
        if init_v is None:
            args, want, zero_expected = (), [_fresh_elem(fields, 0, 0)], True
        else:
            raws = init_v[1][:len(fields)]
            vals = [T.mkval(fields[j][1], r) for j, r in enumerate(raws)]
            want = [vals + [T.zero(p) for _, p in fields[len(vals):]]]
            args, zero_expected = tuple(vals), not vals
        fn = getattr(sc, kind)
        return ((lambda: fn(targ, *args, **kw)), want, False, zero_expected,
                kind, tname, lockmode, 0 < len(args) < len(fields))
    if init_a[0] == 'n':
        n = init_a[1]
        want = [_fresh_elem(fields, 0, 0) for _ in range(n)]
        arg, zero_expected, partial = n, True, False
    else:
        raws, alt = init_a[1], init_a[2]
        zero_expected = False
        partial = False
        if shape == 'prim':
            want = [[T.mkval(fields[0][1], r)] for r in raws]
            arg = [w[0] for w in want]
            if alt:
                if tname == 'c':
                    arg = b''.join(arg)
                elif tname == 'u':
                    arg = ''.join(arg)
                else:
                    arg = tuple(arg)
        else:
            want, arg = [], []
            for r in raws:
                nf = 1 + r % len(fields) if alt else len(fields)
                e = _fresh_elem(fields, r, nf)
                partial = partial or nf < len(fields)
                want.append(e)
                arg.append(tuple(e[:nf]))
    fn = getattr(sc, kind)
    return ((lambda: fn(targ, arg, **kw)), want, True, zero_expected,
            kind, tname, lockmode, partial)


def _cmp(lv, got):
    """None when ``got`` equals the model of live object lv, else a text"""
    fields = T.TYPES[lv.tname][2]
    if len(got) != len(lv.vals):
        return 'length %d, model %d' % (len(got), len(lv.vals))
    for i, (g, w) in enumerate(zip(got, lv.vals)):
        if not T.same_elem(fields, g, w):
            return 'element %d reads %r, model %r' % (i, g, w)
    return None


def _cmp_obj(lv, sliced=False):
    """read live object lv through the API and compare with its model; a read
    that raises (ctypes refusing garbage, e.g. an invalid wchar) is a
    mismatch, not a harness error"""
    try:
        got = T.read_obj(lv.obj, lv.tname, lv.is_array, sliced)
    except Exception as exc:
        return 'reading raised %s: %s' % (type(exc).__name__, exc)
    return _cmp(lv, got)


def _describe(lv):
    return '%s(%s%s)' % (lv.kind, lv.tname,
                         '[%d]' % len(lv.vals) if lv.is_array else '')


def _check_all(live, who, skip=None):
    """every live object reads its model value -> (index, text) or None"""
    for k, lv in enumerate(live):
        if lv is skip:
            continue
        d = _cmp_obj(lv)
        if d:
            return k, '%s #%d %s: %s' % (who, k, _describe(lv), d)
    return None


class _HelperPids:
    """records the pids of billiard's forkserver / semaphore-tracker helper
    processes started while active, and stops + reaps them on exit"""

    def __enter__(self):
        from billiard import forkserver, semaphore_tracker
        self.pids = []
        self.mods = [forkserver, semaphore_tracker]
        self.saved = [m.spawnv_passfds for m in self.mods]
        self.env = os.environ.get('MULTIPROCESSING_FORKING_DISABLE')

        def wrap(orig):
            def spawnv(*a, **k):
                pid = orig(*a, **k)
                self.pids.append(pid)
                return pid
            return spawnv
        for m, o in zip(self.mods, self.saved):
            m.spawnv_passfds = wrap(o)
        return self

    def __exit__(self, *exc):
        from billiard import forkserver, semaphore_tracker
        for m, o in zip(self.mods, self.saved):
            m.spawnv_passfds = o
        fs = forkserver._forkserver
        tr = semaphore_tracker._semaphore_tracker
        if not self.pids and fs._forkserver_alive_fd is None and tr._fd is None:
            return False       # fork-only case: no helper process exists
        gc.collect()      # named semaphores unregister before the tracker goes
        if fs._forkserver_alive_fd is not None:
            os.close(fs._forkserver_alive_fd)
            fs._forkserver_alive_fd = None
            addr, fs._forkserver_address = fs._forkserver_address, None
            try:
                os.unlink(addr)
            except (OSError, TypeError):
                pass
        if tr._fd is not None:
            os.close(tr._fd)
            tr._fd = None
        deadline = time.time() + 30
        for pid in self.pids:
            while True:
                try:
                    done, _ = os.waitpid(pid, os.WNOHANG)
                except ChildProcessError:
                    break
                if done:
                    break
                if time.time() > deadline:
                    os.kill(pid, signal.SIGKILL)
                    os.waitpid(pid, 0)
                    break
                time.sleep(0.005)
        if self.env is None:
            os.environ.pop('MULTIPROCESSING_FORKING_DISABLE', None)
        else:
            os.environ['MULTIPROCESSING_FORKING_DISABLE'] = self.env
        return False


def _recv(conn, proc, what, budget=90.0):
    """-> ('msg', payload) | ('dead', exitcode) | ('timeout', None)"""
    deadline = time.time() + budget
    while True:
        if conn.poll(0.05):
            try:
                tag, payload = conn.recv()
            except (EOFError, OSError):
                proc.join(10)
                return 'dead', proc.exitcode
            if tag == 'error':
                return 'error', payload
            if tag != what:
                return 'error', 'protocol: got %r, expected %r' % (tag, what)
            return 'msg', payload
        if not proc.is_alive():
            if conn.poll(0):
                continue
            return 'dead', proc.exitcode
        if time.time() > deadline:
            return 'timeout', None


def _reap(procs):
    for p in procs:
        if p.pid is None:
            continue
        if p.is_alive():
            p.terminate()
        p.join(10)
        if p.is_alive():
            os.kill(p.pid, signal.SIGKILL)
            p.join()


# ---------------------------------------------------------------------------
# hist / xstart
# ---------------------------------------------------------------------------

def execute_hist(case):
    import billiard
    from billiard import heap as heap_mod
    method = case['method']
    ctx = billiard.get_context(method)
    saved_heap = heap_mod.BufferWrapper._heap
    heap_mod.BufferWrapper._heap = heap_mod.Heap()
    live = []
    dirty = []            # address ranges dropped objects occupied (scribbled)
    labels = set()
    procs = []
    helper = _HelperPids()
    helper.__enter__()
    try:
        out = _run_history(case, ctx, method, live, dirty, labels)
        if out is not None:
            return out
        out, rt_done = _round_trip(case, ctx, method, live, labels, procs)
        if out is not None:
            return out
        labels.add('method:' + method)
        return ok('recycled' in labels and rt_done, sorted(labels))
    finally:
        _reap(procs)
        del procs[:]
        for lv in live:
            lv.obj = None
        del live[:]
        heap_mod.BufferWrapper._heap = saved_heap
        helper.__exit__(None, None, None)


def _run_history(case, ctx, method, live, dirty, labels):
    ops = list(case['first'])
    for chunk in case['ops']:
        ops.extend(chunk)
    ops.append(case['last'])
    for op in ops:
        code = op[0]
        if code == 'new':
            if len(live) >= 12:
                labels.add('new_skipped_12_live')
                continue
            make, want, is_array, zero_expected, kind, tname, lockmode, \
                partial = _build(ctx, method, op)
            try:
                obj = make()
            except Exception as exc:
                return bad('C15/create-raised', '%s(%s) raised %s: %s' % (
                    kind, tname, type(exc).__name__, exc))
            lv = _Live()
            lv.obj, lv.tname, lv.kind, lv.is_array = obj, tname, kind, is_array
            lv.vals, lv.lockmode = want, lockmode
            r = _raw(obj)
            lv.addr, lv.size = ctypes.addressof(r), ctypes.sizeof(r)
            recycled = any(lv.addr < hi and lo < lv.addr + lv.size
                           for lo, hi in dirty)
            where = ' on recycled storage' if recycled else ''
            d = _cmp_obj(lv)
            if d:
                if zero_expected:
                    return bad('C15/not-zeroed', 'new %s without initialiser%s:'
                               ' %s' % (_describe(lv), where, d))
                return bad('C15/init-value', 'new %s%s: %s' % (
                    _describe(lv), where, d))
            if zero_expected and lv.size and \
                    ctypes.string_at(lv.addr, lv.size) != bytes(lv.size):
                return bad('C15/not-zeroed', 'new %s without initialiser%s: '
                           'raw bytes are not all zero' % (_describe(lv), where))
            for k, other in enumerate(live):
                if lv.size and other.size and lv.addr < other.addr + other.size \
                        and other.addr < lv.addr + lv.size:
                    return bad('C15/overlap', 'new %s shares %d bytes with live '
                               '#%d %s' % (
                                   _describe(lv),
                                   min(lv.addr + lv.size, other.addr + other.size)
                                   - max(lv.addr, other.addr), k,
                                   _describe(other)))
            live.append(lv)
            labels.add('kind:' + kind)
            labels.add('shape:' + T.TYPES[tname][1])
            if kind in ('Value', 'Array'):
                labels.add('lockmode:%d' % lockmode)
            if is_array and not want:
                labels.add('len0')
            if recycled:
                labels.add('recycled')
                if zero_expected and lv.size:
                    labels.add('recycled_zero')
                elif partial:
                    labels.add('recycled_partial_init')
            hit = _check_all(live, 'after create', skip=lv)
            if hit:
                return bad('C15/isolation', hit[1])
        elif code == 'w':
            if not live:
                continue
            lv = live[op[1] % len(live)]
            r = T.resolve_write((lv.tname, lv.is_array, len(lv.vals)),
                                [0, op[2], op[3], op[4], op[5]])
            if r is None:
                continue
            i, f, v, whole = r
            try:
                T.write_field(lv.obj, lv.tname, lv.is_array, i, f, v, whole)
            except Exception as exc:
                return bad('C15/write-raised', 'write to %s raised %s: %s' % (
                    _describe(lv), type(exc).__name__, exc))
            lv.vals[i][f] = v
            labels.add('write')
            out = _after_write(live, lv)
            if out:
                return out
        elif code == 'ws':
            cands = [x for x in live if x.is_array and x.vals and
                     T.TYPES[x.tname][1] == 'prim']
            if not cands:
                continue
            lv = cands[op[1] % len(cands)]
            n = len(lv.vals)
            start = op[2] % n
            prim = T.TYPES[lv.tname][2][0][1]
            vals = [T.mkval(prim, x) for x in op[3][:n - start]]
            try:
                T.write_slice(lv.obj, lv.tname, start, vals)
            except Exception as exc:
                return bad('C15/write-raised', 'slice write to %s raised %s: '
                           '%s' % (_describe(lv), type(exc).__name__, exc))
            for j, v in enumerate(vals):
                lv.vals[start + j][0] = v
            labels.add('slice_write')
            d = _cmp_obj(lv, sliced=True)
            if d:
                return bad('C15/readback', 'slice read of %s: %s' % (
                    _describe(lv), d))
            out = _after_write(live, lv)
            if out:
                return out
        elif code == 'drop':
            if not live:
                continue
            lv = live.pop(op[1] % len(live))
            d = _cmp_obj(lv)
            if d:
                return bad('C15/isolation', 'before drop %s: %s' % (
                    _describe(lv), d))
            if lv.size:
                ctypes.memset(lv.addr, 0xFF, lv.size)
                dirty.append((lv.addr, lv.addr + lv.size))
            lv.obj = None
            del lv
            gc.collect()
            labels.add('drop')
            hit = _check_all(live, 'after drop')
            if hit:
                return bad('C15/isolation', hit[1])
    return None


def _after_write(live, lv):
    d = _cmp_obj(lv)
    if d:
        return bad('C15/readback', 'after write to %s: %s' % (_describe(lv), d))
    hit = _check_all(live, 'after write to %s, other object' % _describe(lv),
                     skip=lv)
    if hit:
        return bad('C15/isolation', hit[1])
    return None


def _round_trip(case, ctx, method, live, labels, procs):
    """-> (violation or None, completed-with-writes-both-ways)"""
    if not live:
        labels.add('rt_nothing_live')
        return None, False
    specs = [(lv.tname, lv.is_array, len(lv.vals)) for lv in live]
    plan = [[w[0] % len(live)] + list(w[1:]) for w in case['cw']]
    pc, cc = ctx.Pipe()
    try:
        p = ctx.Process(target=T.roundtrip,
                        args=(cc, specs, [lv.obj for lv in live], plan))
        procs.append(p)
        try:
            p.start()
        except Exception as exc:
            return bad('C15/start-raised', 'starting a %s child with %s raised '
                       '%s: %s' % (method, [_describe(x) for x in live],
                                   type(exc).__name__, exc)), False
        cc.close()
        # 1. the child sees what the parent wrote before it started
        st_, got = _recv(pc, p, 'read1')
        if st_ != 'msg':
            return _rt_problem(st_, got, method, 'first read'), False
        for k, lv in enumerate(live):
            d = _cmp(lv, got[k])
            if d:
                return bad('C15/child-sees-stale', '%s child, #%d %s: %s' % (
                    method, k, _describe(lv), d)), False
        # 2. child writes, parent reads them
        st_, got = _recv(pc, p, 'written')
        if st_ != 'msg':
            return _rt_problem(st_, got, method, 'child writes'), False
        n_cw = 0
        for w in plan:
            r = T.resolve_write(specs[w[0]], w)
            if r is not None:
                i, f, v, _ = r
                live[w[0]].vals[i][f] = v
                n_cw += 1
        hit = _check_all(live, 'parent after %s child wrote,' % method)
        if hit:
            return bad('C15/child-write-invisible', hit[1]), False
        # 3. parent writes after the child started, child reads them
        n_pw = 0
        for w in case['pw']:
            lv = live[w[0] % len(live)]
            r = T.resolve_write((lv.tname, lv.is_array, len(lv.vals)), w)
            if r is None:
                continue
            i, f, v, whole = r
            try:
                T.write_field(lv.obj, lv.tname, lv.is_array, i, f, v, whole)
            except Exception as exc:
                return bad('C15/write-raised', 'parent write to %s raised %s: '
                           '%s' % (_describe(lv), type(exc).__name__, exc)), False
            lv.vals[i][f] = v
            n_pw += 1
        pc.send('go')
        st_, got = _recv(pc, p, 'read2')
        if st_ != 'msg':
            return _rt_problem(st_, got, method, 'second read'), False
        for k, lv in enumerate(live):
            d = _cmp(lv, got[k])
            if d:
                return bad('C15/parent-write-invisible', '%s child, #%d %s: '
                           '%s' % (method, k, _describe(lv), d)), False
        p.join(60)
        if p.is_alive():
            return inconclusive('child did not exit within 60 s'), False
        if p.exitcode != 0:
            return bad('C15/child-failed', '%s child exit code %r' % (
                method, p.exitcode)), False
        hit = _check_all(live, 'parent after join of %s child,' % method)
        if hit:
            return bad('C15/child-write-invisible', hit[1]), False
        if n_cw:
            labels.add('child_wrote')
        if n_pw:
            labels.add('parent_wrote')
        labels.add('roundtrip')
        return None, bool(n_cw and n_pw)
    finally:
        pc.close()
        if not cc.closed:
            cc.close()


def _rt_problem(status, payload, method, stage):
    if status == 'timeout':
        return inconclusive('%s child silent for 90 s at %s' % (method, stage))
    if status == 'error':
        return bad('C15/child-raised', '%s child at %s: %s' % (
            method, stage, payload))
    return bad('C15/child-failed', '%s child died at %s, exit code %r' % (
        method, stage, payload))


# ---------------------------------------------------------------------------
# contend
# ---------------------------------------------------------------------------

# (type name, is_array)
_CTARGETS = [('i', False), ('l', False), ('d', False), ('H', False),
             ('c_longlong', False), ('Point', False),
             ('i', True), ('d', True), ('B', True), ('Point', True)]


def _peek(raw, shape, is_array, i):
    e = raw[i] if is_array else raw
    return e.x if shape == 'struct' else (e if is_array else e.value)


def _poke(raw, shape, is_array, i, v):
    if shape == 'struct':
        (raw[i] if is_array else raw).x = v
    elif is_array:
        raw[i] = v
    else:
        raw.value = v


def execute_contend(case):
    import billiard
    from billiard import heap as heap_mod
    ctx = billiard.get_context(case['method'])
    saved_heap = heap_mod.BufferWrapper._heap
    heap_mod.BufferWrapper._heap = heap_mod.Heap()
    procs, conns = [], []
    helper = _HelperPids()
    helper.__enter__()
    try:
        # all shared objects live in the inner frame only, so that they are
        # gone (semaphores unlinked and unregistered) before the helper
        # processes are stopped
        return _contend(case, ctx, procs, conns)
    finally:
        _reap(procs)
        del procs[:]
        for pc in conns:
            pc.close()
        del conns[:]
        heap_mod.BufferWrapper._heap = saved_heap
        helper.__exit__(None, None, None)


def _contend(case, ctx, procs, conns):
    from billiard import sharedctypes as sc
    method = case['method']
    tname, is_array = _CTARGETS[case['target'] % len(_CTARGETS)]
    targ, shape, fields = T.TYPES[tname]
    lockmode = case['lock']
    # a non-recursive lock cannot be taken again by the wrapper's accessors
    raw_body = bool(case['raw_body']) or lockmode == 3
    m = case['m']
    length = case['length'] if is_array else 1
    scripts = [[i % length for i in s] for s in case['procs']]
    kw = {'ctx': ctx}
    if lockmode == 1:
        kw['lock'] = True
    elif lockmode == 3:
        kw = {'lock': ctx.Lock()}
    elif lockmode == 4:
        kw = {'lock': ctx.RLock()}
    try:
        if is_array:
            obj = sc.Array(targ, length, **kw)
        else:
            obj = sc.Value(targ, **kw)
    except Exception as exc:
        return bad('C15/create-raised', '%s raised %s: %s' % (
            tname, type(exc).__name__, exc))
    for s in scripts:
        pc, cc = ctx.Pipe()
        conns.append(pc)
        p = ctx.Process(target=T.hammer, args=(
            cc, obj, tname, is_array, case['how'], raw_body, s, m))
        procs.append(p)
        try:
            p.start()
        except Exception as exc:
            return bad('C15/start-raised', 'starting a %s child raised '
                       '%s: %s' % (method, type(exc).__name__, exc))
        finally:
            cc.close()
    for pc, p in zip(conns, procs):
        st_, got = _recv(pc, p, 'ready')
        if st_ != 'msg':
            return _rt_problem(st_, got, method, 'start')
    # forced interleaving: the parent holds the object's lock, reads, lets
    # child 0 attempt one locked increment, writes read+1 and only then
    # releases.  With a lock that excludes the child, the child's increment
    # comes after the parent's write (total 2); a child that gets through
    # while the parent holds the lock has its update overwritten (total 1).
    # The grace period only gives a broken lock time to show; it cannot
    # cause a false alarm.
    i0 = scripts[0][0]
    raw, lock = obj.get_obj(), obj.get_lock()
    lock.acquire()
    try:
        before = _peek(raw, shape, is_array, i0)
        conns[0].send('probe')
        st_, got = _recv(conns[0], procs[0], 'probing')
        if st_ != 'msg':
            return _rt_problem(st_, got, method, 'forced interleaving')
        early = conns[0].poll(case['grace_s'])
        _poke(raw, shape, is_array, i0, before + 1)
    finally:
        lock.release()
    st_, got = _recv(conns[0], procs[0], 'probed')
    if st_ != 'msg':
        return _rt_problem(st_, got, method, 'forced interleaving')
    after = _peek(raw, shape, is_array, i0)
    if after != before + 2:
        return bad('C15/lost-update', 'forced interleaving on %s%s, lock '
                   'variant %d, child holds it in way %d (raw body %d): the '
                   'parent held the lock, read %r and wrote %r; the child made '
                   'one locked increment %s the parent released; final %r, '
                   'expected %r' % (
                       tname, '[%d]' % length if is_array else '', lockmode,
                       case['how'], raw_body, before, before + 1,
                       'BEFORE' if early else 'after', after, before + 2))
    for pc in conns:
        pc.send(case['budget_s'])
    made = []
    for pc, p in zip(conns, procs):
        st_, got = _recv(pc, p, 'done', budget=240.0 + case['budget_s'])
        if st_ == 'timeout':
            return inconclusive('increments not finished after 240 s')
        if st_ != 'msg':
            return _rt_problem(st_, got, method, 'increments')
        made.append(got)
    for p in procs:
        p.join(60)
        if p.is_alive():
            return inconclusive('child did not exit within 60 s')
        if p.exitcode != 0:
            return bad('C15/child-failed', 'exit code %r' % (p.exitcode,))
    want = [0] * length
    want[i0] = 2
    for s, n_made in zip(scripts, made):
        for k in range(n_made):
            want[s[k % len(s)]] += 1
    prim = fields[0][1]
    got = [e[0] for e in T.read_obj(obj, tname, is_array)]
    if prim in 'fd':
        want = [float(w) for w in want]
    else:
        lo, hi = T.int_range(prim)
        want = [w % (hi - lo + 1) for w in want]
        want = [w - (hi - lo + 1) if w > hi else w for w in want]
    if got != want:
        lost = [w - g for g, w in zip(got, want)]
        return bad('C15/lost-update', '%d processes made %r increments of '
                   '%s%s, lock variant %d held in way %d (raw body %d): '
                   'final %r, expected %r (difference %r)' % (
                       len(scripts), made, tname,
                       '[%d]' % length if is_array else '', lockmode,
                       case['how'], raw_body, got, want, lost))
    labels = ['method:' + method, 'P=%d' % len(scripts),
              'lockmode:%d' % lockmode, 'how:%d' % case['how'],
              'array' if is_array else 'value', 'shape:' + shape,
              'raw_body' if raw_body else 'wrapper_body']
    if any(n_made < m for n_made in made):
        labels.append('stopped_at_budget')
    return ok(sum(1 for n_made in made if n_made) >= 2, labels)


PARTS = {'hist': execute_hist, 'xstart': execute_hist,
         'contend': execute_contend}


def run(ctx):
    gc.collect()
    gc.freeze()      # keeps the per-drop gc.collect() cheap; nothing of a case
    #                  exists yet, so no case object is exempted
    t0 = time.time()
    quick = ctx.tier == 'quick'
    salt = '%s/%s' % (ctx.seed, ctx.shard)
    both = ['spawn', 'forkserver']
    # The real-process parts with few, expensive cases come first; the
    # histories get what is left of the shard's budget.  Time caps only bound
    # the wall time on a loaded box: a cut is recorded as budget_cut, never a
    # failure.  In the quick tier a shard starts helper processes (semaphore
    # tracker, fork server: ~3 interpreter start-ups) for at most one case.
    if not quick or ctx.shard % 2 == 0:
        methods = both if not quick else [both[(ctx.shard // 2) % 2]]
        ctx.explore('xstart', seeded(rand_hist_case, salt + '/x', methods),
                    execute_hist, n=ctx.pick(1, 60), shrink_budget=40,
                    reexecute_confirm=2, time_cap=ctx.pick(8, 170))
    ctx.explore('contend',
                seeded(rand_contend_case, salt + '/c', ['fork'],
                       ctx.pick(800, 2000), ctx.pick(3, 60)),
                execute_contend, n=ctx.pick(1, 60), shrink_budget=0,
                reexecute_confirm=2, time_cap=ctx.pick(8, 170))
    if not quick or ctx.shard % 4 == 1:
        methods = both if not quick else [both[(ctx.shard // 4) % 2]]
        ctx.explore('contend',
                    seeded(rand_contend_case, salt + '/cx', methods,
                           ctx.pick(800, 2000), ctx.pick(3, 60),
                           ctx.pick(3, 8)),
                    execute_contend, n=ctx.pick(1, 12), shrink_budget=0,
                    reexecute_confirm=2, time_cap=ctx.pick(8, 110))
    left = max(8.0, 30.0 - (time.time() - t0)) if quick else 300
    # The structured Hypothesis strategy (starts minimal, grows, revisits
    # boundary values) gets a modest number of cases: ctx.explore keeps
    # drawing its remaining examples after a time cap or a violation, and
    # drawing a history costs ~20 ms.  The bulk comes from the seeded builder
    # (rich from the very first example, different on every shard, ~free to
    # draw).
    t1 = time.time()
    ctx.explore('hist', hist_cases(['fork']), execute_hist,
                n=ctx.pick(25, 800), shrink_budget=ctx.pick(60, 300),
                reexecute_confirm=2, time_cap=0.3 * left)
    left = max(5.0, left - (time.time() - t1))
    ctx.explore('hist', seeded(rand_hist_case, salt + '/h', ['fork']),
                execute_hist, n=ctx.pick(150, 6000),
                shrink_budget=ctx.pick(60, 300), reexecute_confirm=2,
                time_cap=left)
