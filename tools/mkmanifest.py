#!/venv/bin/python
"""Regenerates MANIFEST.json from the table below (keeps it valid at all times).
A property appears under ``checks`` iff props/<id>.py exists and is listed in
CLAIMED; every other property goes to not_applicable with the reason given."""
import json
import os
import sys

VERIF = os.path.dirname(os.path.dirname(os.path.abspath(__file__)))

# id -> (engine, technique, level text, level note, design ref)
CLAIMED = {
    'C14': (
        'unit+model',
        'Hypothesis-generated malloc/free/deferred-free histories vs an '
        'independent interval model; generated multi-thread scripts',
        'Generated histories (sizes 0..5 pages, every free order, frees that '
        'find the heap lock taken) are run on a fresh Heap and after every '
        'operation the arenas must be exactly tiled by live, free and '
        'pending blocks, free neighbours merged, blocks aligned, inside the '
        'arena, disjoint, contents intact, and no arena mapped while a free '
        'extent fits; frees that arrive inside a malloc (finalizer run while '
        'the heap updates its free lists) are neither lost nor applied twice. '
        'Exploration level: held on N generated histories, no claim of absence.',
        'Reads Heap internals (_start_to_block etc.) as the free index; real '
        'thread interleavings are OS-chosen.',
        'DESIGN.md section 3 C14'),
    'C01': (
        'simpool',
        'Hypothesis-generated operation histories on the real Pool parent code '
        'with simulated workers and an owned schedule/clock, checked against a '
        'per-job reference model after every step',
        'Histories of submissions (apply/map/starmap/imap), worker accept/finish/'
        'deliver steps in any interleaving, deaths with any status, duplicate and '
        'late messages, put failures, supervision ticks, timeout scans, clock '
        'advances, discard, terminate_job and close are run against the real '
        'billiard.pool.Pool parent code; after every step: outcomes never change, '
        'callbacks fire at most once, every failure is the job\'s own or justified '
        'by an event on that job, and at quiescence every accepted job is '
        'resolved and the cache consistent. Exploration: no claim of absence.',
        'Workers are simulated (engines/simpool.py); parent-thread races are below '
        'the atomic step; the zone of the open known finding D10 (faults after close) is '
        'excluded by construction and replayed once per run.',
        'DESIGN.md section 3 C01, section 2 E1'),
    'C02': (
        'simpool',
        'Hypothesis-generated inputs, chunk sizes, pool sizes and chunk '
        'completion orders vs the sequential computation (differential oracle)',
        'For generated functions (incl. raising at generated positions), input '
        'lengths 0-12, chunk sizes (explicit or defaulted) and pool sizes, with '
        'every order in which chunks are accepted and completed by different '
        'simulated workers, map/starmap values, imap order, imap_unordered '
        'multiset, apply values, exception type/args and the attached remote '
        'traceback are compared with a sequential run; the same on pools that '
        'recycle their workers (task quota) while parts are parked or slow, and '
        '(real pools) for calls made while every worker is being replaced. '
        'Exploration level.',
        'Chunk completion order is owned by the harness; the real pipes and '
        'processes are exercised by the real-pool part when present.',
        'DESIGN.md section 3 C02'),
    'C04': (
        'simpool',
        'Hypothesis-generated crash histories (death at any point of RUNNING, '
        'any status, any notice order) on the real parent code with a fake '
        'clock, oracle = timing window + converse + status text',
        'Generated histories kill simulated workers (18 signals, exit codes '
        '0-255) while running or idle, with several victims, ticks and clock '
        'advances around the lost-worker timeout: a job is failed with '
        'WorkerLostError only if a worker owning an unfinished part of it died, '
        'not before timeout after the reaping step, and is resolved by the first '
        'supervision step after it; the text names the real status; other jobs '
        'are unaffected. Exploration level.',
        'Simulated workers; detection = the supervision step that sees the worker '
        'reaped and the job\'s ACK consumed. Losses of imap parts (D4/D13/D9) and '
        'deaths reaped before their ACK is consumed (D7) are generated and judged '
        'since their repair; faults after close() (D10) stay excluded.',
        'DESIGN.md section 3 C04'),
    'C05': (
        'simpool',
        'Hypothesis-generated limit/clock/scan histories on the real '
        'TimeoutHandler with a fake clock; oracle = reference deadline model and '
        'recorded signals',
        'Pool-level and per-job hard limits, elapsed fake time around the limit, '
        'scans before/after the result message, victims that honour TERM or '
        'linger (KILL), group leaders or not, map/imap jobs sharing the pool: a '
        'scan fails exactly the jobs past their effective limit with '
        'TimeLimitExceeded(limit), signals only their workers (TERM first, KILL iff '
        'lingering), never times out map/imap jobs, never raises; a result '
        'consumed between two jobs of a running scan, or whose callback is still '
        'running when a second (real) thread scans, is never timed out; while '
        'join() drains a pool without helper threads its shutdown loop still '
        'enforces the limits (no job completes successfully more than one loop '
        'round after its limit). Real '
        'pools: the job fails within the bound, its process is gone, later jobs '
        'are served. Exploration.',
        'Signals are recorded on simulated processes; real kill/replace is the '
        'real-pool part.',
        'DESIGN.md section 3 C05'),
    'C06': (
        'simpool',
        'Hypothesis-generated soft/hard limit combinations and scan sequences on '
        'the real TimeoutHandler with a fake clock',
        'For all generated combinations of pool/per-job soft and hard limits and '
        'successive scans: the soft signal is recorded only for a worker whose '
        'unresolved job is past its effective soft limit and not past its hard '
        'limit, at most once per job, with timeout_callback(soft=True, '
        'timeout=limit) exactly once; per-job limits take precedence; no signal '
        'for a job whose result was consumed, also while its callback is still '
        'running (real scanner thread). Real pools: a task counting '
        'SoftTimeLimitExceeded sees exactly one and its value is delivered. '
        'Exploration.',
        'That the signal raises SoftTimeLimitExceeded inside the task is checked '
        'with real processes in the real-pool part.',
        'DESIGN.md section 3 C06'),
    'C07': (
        'simpool',
        'Hypothesis-generated close/join histories on the real parent code; '
        'oracle = all pre-close jobs resolved with sequential values, no guard '
        'wait, join never blocks on a live worker',
        'Generated mixes of apply/map/imap jobs and worker progress with close() '
        'at any point, then join(): every job handed out before close resolves '
        'with its sequential value, each simulated worker\'s consumed-result '
        'counter reaches its number of results so none waits out the 30 s guard, '
        'join() does not wait on a worker with no reason to exit, and '
        'submissions after close() return None. Exploration level.',
        'Simulated workers; real processes/threads being gone after join() is the '
        'real-pool part. D10 (closed recycling pool) and the rest of D6b (results '
        'of an already failed map left unread at shutdown) are open known '
        'findings; close() racing a worker replacement is generated (closerace, at '
        'process creation and inside start(), close() running in a gated thread '
        'of its own; real pools: a slow-to-build replacement) - D27, repaired.',
        'DESIGN.md section 3 C07'),
    'C09': (
        'simpool',
        'Hypothesis-generated exit/grow/shrink/submit histories on the real '
        'supervision code; invariant after every supervision step',
        'For generated sequences of worker exits (clean, recycle, error, signal), '
        'grow/shrink and submissions with quotas 1-3: after every supervision '
        'step the pool is back at its configured size, never above it, with '
        'distinct slot indices and no exited worker left listed; recycle/clean '
        'exits fail no job; a worker whose results were consumed is not held up '
        'by the 30 s guard; the real worker loop never exceeds its quota whatever '
        'the task outcomes (incl. unserialisable results) and recycles on a '
        'memory-limit hit after finishing the task; real pools: per-process task '
        'counts, recycle statuses, every job exactly once. Exploration level.',
        'Simulated workers for the supervision part; results arriving after their '
        'job left the cache (D6b, repaired) are generated and judged.',
        'DESIGN.md section 3 C09'),
    'C10': (
        'unit+simpool',
        'Model-based op sequences on LaxBoundedSemaphore (exhaustive small scope '
        '+ Hypothesis) and generated pool histories with put-locks',
        'LaxBoundedSemaphore agrees with the (value,bound) reference model on '
        'every acquire/release/grow/shrink/clear sequence (all sequences up to '
        'length 7 for n<=2 enumerated, longer ones generated); in pool histories '
        'with put-locks the semaphore never exceeds its bound, equals bound minus '
        'outstanding apply jobs on exit-free histories, is full again at '
        'quiescence, and the slot of a job is already free when its own result '
        'callback runs; real threads releasing concurrently (barrier, 1 us switch '
        'interval) never push it above its bound. Exploration level (small scope '
        'exhaustive).',
        'A limit kill whose job had finished with its result in flight loses a '
        'slot (open finding D24); failed sends are generated and judged since the '
        'D15 repair; shrink with no free slot must wait for a release.',
        'DESIGN.md section 3 C10'),
    'C11': (
        'unit+simpool',
        'Reference limiter written from the statement vs restart_state '
        '(exhaustive small scope + Hypothesis) and vs Pool.maintain_pool on '
        'generated exit histories; Supervisor.body under fake sleep',
        'restart_state agrees step by step with a reference limiter on generated '
        'and exhaustively enumerated step/reset sequences with gaps around the '
        'window; maintain_pool raises RestartFreqExceeded exactly when the '
        'reference does and starts exactly the admitted number of processes, '
        'clean/recycle exits never consume budget, ACKs reset the count; the '
        'start-up burst limiter (10 x processes, 1 s) is in force for the first '
        'ten iterations and the original restored. Exploration level.',
        'No grow/shrink in these histories (see DESIGN soundness note 7).',
        'DESIGN.md section 3 C11'),
    'C03': (
        'workerloop+simpool',
        'Hypothesis-generated task streams through the real Worker.workloop '
        '(in-process) parsed by an independent grammar recogniser; generated '
        'cancel/ack orders on ApplyResult; simulator histories for the parent side',
        'Generated task sequences (succeeding, raising ordinary or base '
        'exceptions, unserialisable results, refused by the parent), quotas and '
        'SYN answers are fed to the real worker loop and its message stream must '
        'match the grammar (ACK with real pid and accept time, then exactly one '
        'READY with the same ids unless refused; refused tasks never executed nor '
        'counted; quota respected; recycle status iff quota reached). The parent '
        'runs the accept callback before the result callback with the ACK\'s '
        '(pid, time) and records the accepting worker as owner; a job cancelled '
        'before acceptance is answered NACK and not accepted. Exploration level.',
        'Worker loop runs in a helper thread (no fork/signals); the executing '
        'process pid == handle owner is checked with real pools in C09 part real.',
        'DESIGN.md section 3 C03, section 2 E2'),
    'C08': (
        'realpool',
        'Hypothesis-generated scenarios on real pools in watchdogged child '
        'processes; hangs diagnosed from faulthandler stack dumps',
        'Generated scenarios (pool size 1-4, threads on/off, workers idle / inside '
        'task code / inside a task swallowing BaseException, 0-8 queued jobs; '
        'terminate, terminate twice, del+gc, terminate_job, operator SIGTERM proven '
        'to land inside the task, a hard time limit; also while the supervisor '
        'replaces workers, between two forks or inside a slow one, and while the '
        'task feeder sits inside a lazily produced imap whose input stalls) run '
        'on real pools: terminate() returns within '
        'the bound, afterwards no worker process and no pool thread is left, '
        'results delivered before stay intact, repeated calls raise nothing; a '
        'signalled worker leaves the pool, runs its exit callback and starts no '
        'further task. Exploration level on OS-chosen schedules.',
        'Bounds: terminate <= 45 s (normal ~7 s with a job in flight), watchdog '
        '75 s; a watchdog kill counts only when the main thread is inside '
        'terminate().',
        'DESIGN.md section 3 C08, section 2 E3'),
    'C12': (
        'unit+workerloop',
        'Hypothesis-generated exception types/args/traceback depths and pickle '
        'round-trip counts (round-trip + metamorphic oracle); generated task '
        'streams through the real worker loop for unserialisable results',
        'For generated exception types (incl. BaseException subclasses), argument '
        'tuples, traceback depths 1..400 and unbounded recursion, and 1-5 pickle '
        'round trips, ExceptionInfo keeps type, args, traceback text naming the '
        'raising frame and a bounded traceback object the traceback module can '
        'format, unchanged by further trips; results unpicklable at nesting depth '
        '0-5 yield exactly one MaybeEncodingError READY and the loop goes on. '
        'Exploration level.',
        'The worker loop runs in a helper thread of the checking process.',
        'DESIGN.md section 3 C12'),
    'C13': (
        'faultio+real pipes',
        'Hypothesis-generated message lists, source objects, offsets and a '
        'fault plan for fake read/write syscalls (short transfers, EINTR, peer '
        'close at any byte) vs an independently written reference framing; the '
        'same scripts over real pipes/socket pairs with shrunken buffers',
        'The real Connection code runs over injected syscalls: the wire equals '
        'the reference encoding, every message is received intact and in order, '
        'clean EOF vs cut inside a message, maxlength and BufferTooShort '
        'behaviour, and rejection of invalid offsets / closed / wrong-direction '
        'handles before any I/O are checked; real-kernel runs add natural '
        'fragmentation up to multi-megabyte messages. Exploration level.',
        'Syscalls are injected through Connection._send/_recv default arguments; '
        'lengths >= 2 GiB and non-blocking descriptors are out of reach.',
        'DESIGN.md section 3 C13'),
    'C15': (
        'unit+processes',
        'Hypothesis-generated create/write/drop/recreate histories over all type '
        'codes vs a model dict; child round trips under fork/spawn/forkserver; '
        'contended locked increments with an exact total',
        'Generated histories of shared Value/Array objects (12 type codes, ctypes '
        'types, a Structure, lock variants, recycled dirty storage) are checked '
        'against a model for initial contents, zero fill, isolation and disjoint '
        'addresses; writes cross process boundaries both ways under every start '
        'method; P processes x M locked increments lose no update. Exploration.',
        'Lost updates under a broken lock depend on the OS schedule; one forced '
        'interleaving per run makes the basic exclusion deterministic.',
        'DESIGN.md section 3 C15'),
    'C17': (
        'detsched',
        'Harness-owned scheduler at semaphore-operation granularity running the '
        'real Condition/Event code over simulated semaphores: exhaustive DFS of '
        'all schedules of small programs + Hypothesis-generated programs and '
        'schedules; oracle = acceptance by a nondeterministic specification '
        'automaton; real Lock/RLock/Semaphore across processes',
        'All schedules (including a timeout firing at any moment) of every '
        '2-thread program with <=2 operations per thread, and of 3-thread '
        'one-operation programs, are enumerated over the real '
        'billiard.synchronize.Condition and Event; larger programs and schedules '
        'are generated. Traces must be accepted by the specification (no lost or '
        'double-counted wake-up, notify wakes at most one, timed-out wait returns '
        'False and leaves the condition consistent, Event.wait/set/clear '
        'linearisable). Real primitives: holders never exceed the count, bounded '
        'over-release raises, RLock needs k releases. Small scopes exhaustive, '
        'the rest exploration.',
        'The simulated semaphore is the specification of a counting semaphore; '
        'DFS uses sleep sets over an independence relation validated against '
        'full enumeration; the C SemLock is exercised only by the real part.',
        'DESIGN.md section 3 C17, section 2 E4'),
    'C18': (
        'unit+sockets',
        'Hypothesis-generated key pairs (equal, one bit apart, prefixes, long) '
        'over pipes and AF_UNIX/AF_INET listeners, and a hostile peer deviating '
        'at each handshake step, against an independent HMAC implementation',
        'Both sides obtain a usable connection iff the keys are equal, otherwise '
        'both raise AuthenticationError; every deviation of a hostile peer '
        '(wrong, truncated, empty, oversized or replayed digest, out-of-turn '
        'verdict, malformed challenge) is refused; challenges are pairwise '
        'distinct; non-bytes keys raise TypeError. Exploration level.',
        'HMAC-equivalent unequal keys authenticate (open known finding D17, '
        'inherent to HMAC); excluded by construction and replayed.',
        'DESIGN.md section 3 C18'),
    'C19': (
        'processes',
        'Exhaustive enumeration of exit paths (54 fatal signals, exit codes) x '
        'start methods plus Hypothesis-generated parent-side poll/join scripts '
        'on real child processes; the end of a child is observed independently '
        'through /proc',
        'Children that return, raise, call sys.exit(n), kill themselves with any '
        'fatal signal or are killed externally are started under fork, spawn and '
        'forkserver; generated scripts poll exitcode/is_alive/active_children and '
        'join with timeouts before, around and after the exit: exit codes are '
        '0/1/n/-s (non-zero under forkserver), None/alive until the end, timed '
        'joins return in time, joined children leave active_children, a second '
        'start() or a start() from a non-creator raises. Signals and edge exit '
        'codes are enumerated exhaustively; scripts are exploration level.',
        'join(timeout) slack is 3 s on a loaded box; forkserver children are '
        'not asserted on between release and disappearance from /proc.',
        'DESIGN.md section 3 C19'),
    'C20': (
        'manager',
        'Hypothesis-generated operation histories on proxies vs local model '
        'objects (differential), concurrent clients with exact effect counts, '
        'proxy lifecycle histories vs a reference count model, generated wrong '
        'keys',
        'Histories over list/dict/Namespace/Value/Array/Lock/Queue proxies (and '
        'the other registered types incl. Pool/Iterator, Event, Semaphore, '
        'Condition, Barrier) issued from the main process, client threads and '
        'forked clients are compared call by call with local objects, referent '
        'exceptions included; N clients x M operations leave exactly NxM '
        'effects; after every create/copy/hand-over/drop step the server holds '
        'exactly the referents with a live proxy, also for referents that several '
        'proxies share through a registered callable; wrong keys are refused with '
        'no request served; RLock/Condition proxies used by a forked child that '
        'builds and drops other proxies while holding the lock behave like the '
        'local threading object. Exploration level.',
        'Atomicity of concurrent operations is observed under OS-chosen '
        'schedules; clients are fork-context only.',
        'DESIGN.md section 3 C20'),
    'C16': (
        'unit+processes',
        'Model-based Hypothesis op sequences on Queue/JoinableQueue/SimpleQueue '
        'vs a deque model; generated multi-party producer/consumer runs '
        '(processes and threads) with tagged sequences',
        'Generated put/get/task_done/join sequences (capacities 0-5, timeouts, '
        'items up to 200 kB) agree with a model deque: Full exactly at capacity, '
        'Empty on a timed get not before the timeout (to clock granularity), '
        'FIFO and unchanged items, task_done over-call raises, join returns '
        'exactly when all items are done. With 1-4 producers and 1-4 consumers '
        'the received multiset equals the sent one and each consumer sees every '
        'producer\'s items in order; threads racing on their first put on a '
        'fresh queue (lazy feeder start) lose or reorder nothing. Exploration.',
        'Multi-party interleavings are OS-chosen; fork start method only.',
        'DESIGN.md section 3 C16'),
}

NOT_YET = 'check not built yet in this session (planned, see DESIGN.md section 3)'


def main():
    props = [json.loads(l) for l in open(os.path.join(VERIF, 'properties.jsonl'))]
    checks, na = [], []
    for p in props:
        pid = p['id']
        if pid in CLAIMED and os.path.exists(
                os.path.join(VERIF, 'props', pid.lower() + '.py')):
            engine, technique, text, note, ref = CLAIMED[pid]
            checks.append({
                'property_id': pid,
                'quick_cmd': './check %s --tier quick' % pid,
                'thorough_cmd': './check %s --tier thorough' % pid,
                'evidence_file': 'evidence/%s.json' % pid,
                'replay_cmd_template': './check %s --replay {path}' % pid,
                'engine': engine,
                'level_claimed': {'category': 'exploration', 'text': text,
                                  'design_ref': ref},
                'level_note': note,
                'technique': technique,
            })
        else:
            na.append({'property_id': pid, 'reason': NOT_YET})
    hooks_commits = []
    hc = os.path.join(VERIF, 'hook_commits.txt')
    if os.path.exists(hc):
        hooks_commits = [l.split()[0] for l in open(hc) if l.strip()]
    man = {
        'version': 1,
        'setup_cmd': ('/venv/bin/pip install -q --no-index --find-links '
                      '/opt/veriftools/wheels hypothesis && '
                      '/venv/bin/pip install -q --no-index --find-links '
                      '/opt/veriftools/wheels --target /verif/.deps jsonschema '
                      '&& mkdir -p /verif/evidence /verif/replays'),
        'hooks': {
            'guard': 'BILLIARD_VERIF',
            'enable': 'no hooks are needed: every seam used is reachable from '
                      'the test side (context argument, handler class '
                      'attributes, module globals, default-argument syscalls)',
            'baseline_off_cmd': 'cd /repo && /venv/bin/python -m pytest -ra -q '
                                '-p no:cacheprovider --timeout=900 '
                                '--continue-on-collection-errors',
            'source_commits': hooks_commits,
            'add_only': True,
        },
        'engines': [
            {'name': 'simpool', 'path': 'engines/simpool.py',
             'serves_properties': ['C01', 'C02', 'C04', 'C05', 'C06', 'C09',
                                   'C10', 'C11', 'C03', 'C07'],
             'kind_free_text': 'real billiard.pool.Pool parent code with '
                               'simulated workers, harness-owned schedule and '
                               'clock, single-threaded'},
            {'name': 'runner', 'path': 'vlib/',
             'serves_properties': [c['property_id'] for c in checks],
             'kind_free_text': 'Hypothesis driver, sharding, ddmin shrinking, '
                               'replay, evidence, known findings'},
        ],
        'checks': checks,
        'not_applicable': na,
        'notes': 'All checks: ./check <ID> [--tier quick|thorough] [--seed N] '
                 '[--replay PATH]; VERIF_SEED/VERIF_TIER honoured; exit 2 = '
                 'harness error. known_findings.json lists open/fixed findings.',
    }
    if not na:
        man['not_applicable'] = []
    with open(os.path.join(VERIF, 'MANIFEST.json'), 'w') as f:
        json.dump(man, f, indent=1)
    try:
        sys.path.insert(0, os.path.join(VERIF, '.deps'))
        import jsonschema
        jsonschema.validate(man, json.load(open('/root/.vp/MANIFEST.schema.json')))
        print('MANIFEST.json valid: %d checks, %d not_applicable' % (
            len(checks), len(na)))
    except ImportError:
        print('MANIFEST.json written (jsonschema not available)')


if __name__ == '__main__':
    main()
