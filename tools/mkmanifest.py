#!/venv/bin/python
"""Regenerates MANIFEST.json from the table below (keeps it valid at all times).
A property appears under ``checks`` iff props/<id>.py exists and is listed in
CLAIMED; every other property goes to not_applicable with the reason given."""
import json
import os
import sys

VERIF = os.path.dirname(os.path.dirname(os.path.abspath(__file__)))

# id -> (engine, technique, level text, level note, design ref)
CLAIMED = {
    'C14': (
        'unit+model',
        'Hypothesis-generated malloc/free/deferred-free histories vs an '
        'independent interval model; generated multi-thread scripts',
        'Generated histories (sizes 0..5 pages, every free order, frees that '
        'find the heap lock taken) are run on a fresh Heap and after every '
        'operation the arenas must be exactly tiled by live, free and '
        'pending blocks, free neighbours merged, blocks aligned, inside the '
        'arena, disjoint, contents intact, and no arena mapped while a free '
        'extent fits. Exploration level: held on N generated histories, no '
        'claim of absence.',
        'Reads Heap internals (_start_to_block etc.) as the free index; real '
        'thread interleavings are OS-chosen.',
        'DESIGN.md section 3 C14'),
}

NOT_YET = 'check not built yet in this session (planned, see DESIGN.md section 3)'


def main():
    props = [json.loads(l) for l in open(os.path.join(VERIF, 'properties.jsonl'))]
    checks, na = [], []
    for p in props:
        pid = p['id']
        if pid in CLAIMED and os.path.exists(
                os.path.join(VERIF, 'props', pid.lower() + '.py')):
            engine, technique, text, note, ref = CLAIMED[pid]
            checks.append({
                'property_id': pid,
                'quick_cmd': './check %s --tier quick' % pid,
                'thorough_cmd': './check %s --tier thorough' % pid,
                'evidence_file': 'evidence/%s.json' % pid,
                'replay_cmd_template': './check %s --replay {path}' % pid,
                'engine': engine,
                'level_claimed': {'category': 'exploration', 'text': text,
                                  'design_ref': ref},
                'level_note': note,
                'technique': technique,
            })
        else:
            na.append({'property_id': pid, 'reason': NOT_YET})
    hooks_commits = []
    hc = os.path.join(VERIF, 'hook_commits.txt')
    if os.path.exists(hc):
        hooks_commits = [l.split()[0] for l in open(hc) if l.strip()]
    man = {
        'version': 1,
        'setup_cmd': ('/venv/bin/pip install -q --no-index --find-links '
                      '/opt/veriftools/wheels hypothesis && '
                      '/venv/bin/pip install -q --no-index --find-links '
                      '/opt/veriftools/wheels --target /verif/.deps jsonschema '
                      '&& mkdir -p /verif/evidence /verif/replays'),
        'hooks': {
            'guard': 'BILLIARD_VERIF',
            'enable': 'no hooks are needed: every seam used is reachable from '
                      'the test side (context argument, handler class '
                      'attributes, module globals, default-argument syscalls)',
            'baseline_off_cmd': 'cd /repo && /venv/bin/python -m pytest -ra -q '
                                '-p no:cacheprovider --timeout=900 '
                                '--continue-on-collection-errors',
            'source_commits': hooks_commits,
            'add_only': True,
        },
        'engines': [
            {'name': 'simpool', 'path': 'engines/simpool.py',
             'serves_properties': ['C01', 'C02', 'C04', 'C05', 'C06', 'C09',
                                   'C10', 'C11', 'C03', 'C07'],
             'kind_free_text': 'real billiard.pool.Pool parent code with '
                               'simulated workers, harness-owned schedule and '
                               'clock, single-threaded'},
            {'name': 'runner', 'path': 'vlib/',
             'serves_properties': [c['property_id'] for c in checks],
             'kind_free_text': 'Hypothesis driver, sharding, ddmin shrinking, '
                               'replay, evidence, known findings'},
        ],
        'checks': checks,
        'not_applicable': na,
        'notes': 'All checks: ./check <ID> [--tier quick|thorough] [--seed N] '
                 '[--replay PATH]; VERIF_SEED/VERIF_TIER honoured; exit 2 = '
                 'harness error. known_findings.json lists open/fixed findings.',
    }
    if not na:
        man['not_applicable'] = []
    with open(os.path.join(VERIF, 'MANIFEST.json'), 'w') as f:
        json.dump(man, f, indent=1)
    try:
        sys.path.insert(0, os.path.join(VERIF, '.deps'))
        import jsonschema
        jsonschema.validate(man, json.load(open('/root/.vp/MANIFEST.schema.json')))
        print('MANIFEST.json valid: %d checks, %d not_applicable' % (
            len(checks), len(na)))
    except ImportError:
        print('MANIFEST.json written (jsonschema not available)')


if __name__ == '__main__':
    main()
