#!/venv/bin/python
"""bucket the violations of N generated sim histories by signature (triage tool)
usage: tools/simexplore.py <props-module> <part> [n] [seed]"""
import sys, os, json, time, importlib, collections
sys.path[:0] = ['/verif', os.environ.get('VERIF_REPO', '/repo')]
import hypothesis
from hypothesis import given, settings, HealthCheck, Phase
mod = importlib.import_module('props.' + sys.argv[1])
part = sys.argv[2]
n = int(sys.argv[3]) if len(sys.argv) > 3 else 500
seed = int(sys.argv[4]) if len(sys.argv) > 4 else 1
strategy, execute = mod.EXPLORE[part]
buckets = collections.OrderedDict()
labels = collections.Counter()
cnt = [0, 0]
t0 = time.time()
@hypothesis.seed(seed)
@settings(max_examples=n, database=None, deadline=None, phases=[Phase.generate],
          suppress_health_check=list(HealthCheck))
@given(strategy)
def t(case):
    out = execute(case)
    cnt[0] += 1
    cnt[1] += out.nontrivial
    labels.update(out.labels)
    if out.violated:
        b = buckets.setdefault(out.signature, [0, None, None])
        b[0] += 1
        if b[1] is None or len(json.dumps(case)) < len(json.dumps(b[1])):
            b[1], b[2] = case, out.detail
t()
print('cases %d nontrivial %d in %.1fs' % (cnt[0], cnt[1], time.time() - t0))
print('labels', dict(labels.most_common()))
for sig, (c, case, detail) in sorted(buckets.items(), key=lambda kv: -kv[1][0]):
    print('=' * 70); print(c, sig); print(json.dumps(case)[:1500]); print(detail[:1200])
