#!/venv/bin/python
"""Builds known_findings.json and replays/regress/*.json from the table below
and verifies every entry: an 'open' finding must reproduce on /repo with exactly
its signature; a 'fixed' one must hold on /repo (and, when --orig DIR is given,
fail on the pre-fix tree DIR).  Run by hand when the table changes; checks never
write these files."""
import json
import os
import subprocess
import sys

VERIF = os.path.dirname(os.path.dirname(os.path.abspath(__file__)))

A = {'allow': []}


def cfg(**kw):
    d = {'procs': 2, 'threads': True, 'putlocks': False}
    d.update(kw)
    return d


# (name, property, part, status, commit, signature, what, case)
TABLE = [
    # ---- open findings -----------------------------------------------------
    ('D10-close-strands-jobs', 'C01', 'sim', 'open', None,
     'C01/unresolved/closed-unsupervised',
     'close() on a pool whose workers then exit (recycling quota, or a death '
     'noticed only after close): supervision stops at close(), nobody replaces '
     'them, queued jobs never resolve (pool.py Supervisor.body / close)',
     {'config': cfg(procs=1, maxtasks=1, allow=['close-unsupervised']),
      'ops': [['apply', ['id'], 1, {}, True], ['apply', ['id'], 2, {}, True],
              ['close']]}),
    ('D10-close-strands-jobs', 'C07', 'sim', 'open', None,
     'C01/unresolved/closed-unsupervised',
     'close() on a recycling pool strands queued jobs: join() returns after the '
     'result handler\'s 5 s timeout with handles unresolved',
     {'config': cfg(procs=1, maxtasks=1, allow=['close-unsupervised']),
      'ops': [['apply', ['id'], 1, {}, True], ['apply', ['id'], 2, {}, True],
              ['close']]}),
    ('D7-death-reaped-before-ack', 'C04', 'sim', 'fixed', '1b6a392',
     'C04/unresolved/apply/ack-after-reap',
     'a worker death reaped before the victim\'s pending ACK is consumed is '
     'never attributed to the job (orphan scan runs only inside "if cleaned:", '
     'pool.py _join_exited_workers): the caller waits forever',
     {'config': cfg(procs=4, threads=False, allow=['ack-after-reap']),
      'ops': [['apply', ['affine', 1, 0], 2, {'lost': 2.0}, True],
              ['apply', ['id'], 0, {'lost': 0.5}, False], ['take', 0],
              ['take', 4], ['die', 6, 2], ['tick']]}),
    ('D4-ordered-imap-loss-hidden', 'C04', 'sim', 'fixed', '2dcdfd9',
     'C04/v-not-surfaced/imap',
     'ordered imap whose worker dies: mark_as_worker_lost files the failure under '
     'index None (IMapIterator._set), the iterator never yields it and the '
     'caller waits forever',
     {'config': cfg(lost=0.5, allow=['imap-loss']),
      'ops': [['imap', ['id'], 3, 1, True, True], ['run', 0],
              ['die', 0, -9, True], ['tick'], ['adv', 1.0], ['tick']]}),
    ('D13-unordered-imap-loss-repeated', 'C04', 'sim', 'fixed', '2dcdfd9',
     'C01/own-outcome/imap_unordered/unjustified-WorkerLostError',
     'imap_unordered whose worker dies: the job is marked lost again at every '
     'supervision step, each time consuming one more part, so healthy parts are '
     'reported lost and their real results dropped',
     {'config': cfg(procs=3, lost=0.5, allow=['imap-loss']),
      'ops': [['imap', ['id'], 3, 1, False, True], ['run', 0], ['run', 0],
              ['run', 0], ['die', 0, -9, True], ['tick'], ['adv', 1.0], ['tick'],
              ['adv', 1.0], ['tick']]}),
    ('D9-terminate-job-imap-crash', 'C01', 'sim', 'fixed', '2dcdfd9',
     'C01/raised/tick/AttributeError/_join_exited_workers',
     'terminate_job() on a worker running an imap part: the next supervision '
     'step calls job._set_terminated which the iterators do not have; the '
     'Supervisor thread dies and PoolThread.run ends the host with os._exit(1)',
     {'config': cfg(allow=['imap-loss']),
      'ops': [['imap', ['id'], 3, 1, True, True], ['run', 0], ['tjob', 0, None],
              ['hterm', 0, -15], ['tick']]}),
    ('D6b-late-ready-uncredited', 'C09', 'sim', 'fixed', '920d368',
     'C09/held-up/late-ready',
     'a READY for a job that already left the cache (later chunks of a failed '
     'map, a result after a limit/lost failure, a discarded job) credits nobody '
     '(on_ready returns on the cache miss first): that worker waits out the 30 s '
     'guard when it recycles',
     {'config': cfg(procs=4, maxtasks=2, putlocks=True),
      'ops': [['map', ['raise_if', [11, 4], 'KeyError'], 9, None, True, True]]}),
    ('D6b-results-unread-at-shutdown', 'C07', 'sim', 'open', None,
     'C07/guard-waited/late-ready',
     'the result handler stops reading as soon as the cache is empty: after '
     'close(), the results of the remaining chunks of a map that has already '
     'failed (its handle left the cache) are never consumed, so those workers '
     'sit out their 30 s result-consumption guard and join() takes that long '
     '(the other facet of D6b - results consumed but not credited - was repaired '
     'in 920d368)',
     {'config': cfg(procs=4),
      'ops': [['map', ['raise_if', [8, 1, 6, 10], 'CustomError'], 12, None,
               False, False], ['close']]}),
    ('D15-failed-send-leaks-slot', 'C10', 'sim', 'fixed', '31f3233',
     'C10/P2-leak/putfail',
     'a task that cannot be sent (pickling failure) never gives its put-lock slot '
     'back: neither apply_async\'s direct put nor TaskHandler\'s error path '
     'releases the semaphore',
     {'config': cfg(procs=3, threads=False, putlocks=True),
      'ops': [['apply', ['id'], 2, {'unpicklable': True}, True]]}),
    ('D25-terminated-with-result-in-flight', 'C01', 'sim', 'open', None,
     'C01/terminated-with-result-in-flight',
     'terminate_job(pid) on a worker that runs job B while the result of job A, '
     'which it had finished before, is still in flight: when the worker is reaped '
     'before the result handler consumes that result, A is failed with Terminated '
     'as well (its real result is then ignored) - the terminated path of '
     '_join_exited_workers has no grace period for results already in the pipe, '
     'unlike the lost-worker path',
     {'config': cfg(procs=3, threads=False, putlocks=True, timeout=3, soft=20,
                    allow=['tjob-result-in-flight']),
      'ops': [['apply', ['affine', 1, -4], 0, {}, True], ['take', 4],
              ['deliver', 5], ['finish', 1],
              ['apply', ['affine', 1, -4], 0, {}, True], ['take', 1],
              ['tjob', 1, 9], ['tick']]}),
    # ---- fixed (regressions; suppress nothing) -----------------------------------
    ('D5-scan-crash', 'C05', 'sim', 'fixed', '933cb2f',
     'C05/raised/scan/AttributeError/handle_timeouts',
     'time-limit scan crashed on map and imap jobs',
     {'config': cfg(procs=1, pgleader=True, soft=3, timeout=5),
      'ops': [['imap', ['pair'], 8, 1, False, True], ['scan', False, 15]]}),
    ('D5-scan-crash-map', 'C05', 'sim', 'fixed', '933cb2f',
     'C05/raised/scan/TypeError/_timed_out',
     'time-limit scan crashed on map jobs under a pool default limit',
     {'config': cfg(procs=1, soft=3, timeout=5),
      'ops': [['map', ['id'], 4, 1, False, True], ['run', 0],
              ['scan', False, 15]]}),
    ('D8-supervisor-crash-imap', 'C09', 'sim', 'fixed', '1f1dc0a',
     'C09/raised/tick/AttributeError/_join_exited_workers',
     'supervisor crashed when a worker exited while an imap was pending',
     {'config': cfg(procs=4, maxtasks=2, putlocks=True),
      'ops': [['imap', ['id'], 8, 1, False, True], ['die', 5, 1], ['tick']]}),
    ('D1-wrong-job-failed', 'C01', 'sim', 'fixed', 'eabcf85',
     'C01/own-outcome/apply/foreign-putfail',
     'a task that could not be sent failed job #2 instead of its own job',
     {'config': cfg(maxtasks=1, lost=2.0),
      'ops': [['apply', ['pair'], 1, {}, True], ['apply', ['pair'], 1, {}, True],
              ['apply', ['id'], 1, {}, True],
              ['apply', ['id'], 3, {'unpicklable': True}, True]]}),
    ('D1-unsendable-never-resolves', 'C01', 'sim', 'fixed', 'eabcf85',
     'C01/unresolved/apply/putfail',
     'a task that could not be sent never resolved',
     {'config': cfg(),
      'ops': [['apply', ['id'], 2, {'unpicklable': True}, True]]}),
    ('D6a-wrong-worker-credited', 'C07', 'sim', 'fixed', '4bbee85',
     'C07/guard-waited/plain',
     'result-consumed counter credited to the first part\'s worker: join() waited '
     'out the 30 s guard after a shared map/imap',
     {'config': cfg(procs=4),
      'ops': [['imap', ['affine', 1, -2], 7, 3, True, True], ['close']]}),
    ('D3-spurious-lost-after-recycle', 'C04', 'sim', 'fixed', '7b7c6ca',
     'C01/own-outcome/starmap/unjustified-WorkerLostError',
     'map on a recycling pool reported lost although every chunk completed',
     {'config': cfg(maxtasks=1),
      'ops': [['map', ['pair'], 11, 2, True, False]]}),
    ('D12-loss-restarted-status-forgotten', 'C04', 'sim', 'fixed', '213dbc1',
     'C04/status-text/apply',
     'pending worker loss restarted and exit status forgotten when another '
     'worker was reaped',
     {'config': cfg(procs=4, maxtasks=1, threads=False, lost=30.0, putlocks=True),
      'ops': [['die', 0, 8], ['apply', ['id'], 0, {'lost': 0.5}, False],
              ['apply', ['id'], 2, {'lost': 30.0}, False],
              ['apply', ['id'], 3, {'lost': 30.0}, False], ['take', 0],
              ['apply', ['pair'], 0, {'lost': 30.0}, True], ['die', 3, -1]]}),
    ('D23-stale-pending-loss', 'C04', 'sim', 'fixed', 'f8f3ec2',
     'C01/own-outcome/map/unjustified-WorkerLostError',
     'a map was failed with WorkerLostError although the dead worker\'s result '
     'had arrived during the grace period and the other chunks were running on '
     'healthy workers (pending loss never dropped)',
     {'config': cfg(),
      'ops': [['map', ['id'], 4, 2, False, True], ['take', 0], ['take', 1],
              ['deliver', 0], ['deliver', 1], ['finish', 0], ['slow', 0, 25.0],
              ['die', 0, -9], ['tick'], ['deliver', 0], ['adv', 11.0], ['tick']]}),
    ('D27-close-races-replacement', 'C07', 'sim', 'fixed', 'df8c3a7',
     'join-blocks',
     'close() queued the task handler\'s sentinel before it waited for the '
     'supervisor: a task handler that counted the workers (one exit sentinel '
     'each) while the supervisor had removed a dead worker and not yet listed '
     'its replacement sent one sentinel too few, the replacement never exited '
     'and join() blocked for ever',
     {'config': cfg(),
      'ops': [['die', 4, -1], ['closerace', 'create']]}),
    ('D27-real-close-races-replacement', 'C07', 'real', 'fixed', 'df8c3a7',
     'C07/join-hangs',
     'real pool of 3 whose replacement workers are slow to build: an idle worker '
     'is told to exit, close() is called once the supervisor has taken it off '
     'the list; join() never returned (first seen as a hang of a generated '
     'scenario on a loaded machine, where the victim was slow to die)',
     {'procs': 3, 'threads': True, 'maxtasks': None,
      'jobs': [['apply', 0.02], ['map', 5, 2, 0.02], ['imap', 3, 0.02]],
      'close_after': 0, 'replace': 'race'}),
    ('D28-map-while-pool-empty', 'C02', 'real', 'fixed', 'd2b464a',
     'C02/real-map-value',
     'map() with the default chunk size while every worker is being replaced '
     '(the list of workers is empty between reaping and restarting - a pool of '
     'one recycling its worker, or all workers told to exit at once) raised '
     'ZeroDivisionError from divmod(len(iterable), len(self._pool) * 4)',
     {'procs': 2, 'entry': 'map', 'n': 9, 'cs': None, 'bad': [],
      'exc': 'ValueError', 'pre': 'apply', 'replacing': True}),
    ('D14-double-shrink', 'C09', 'sim', 'fixed', 'ebdf4d5',
     'C09/above-size',
     'two shrink(1) calls within one supervision period terminated the same '
     'worker and left the pool above its size',
     {'config': cfg(procs=3, maxtasks=1, putlocks=True),
      'ops': [['shrink', 1], ['shrink', 1], ['tick']]}),
]

EXTRA = os.path.join(VERIF, 'tools', 'known_extra.json')   # non-sim entries


def run_replay(path, prop, repo):
    env = dict(os.environ, VERIF_REPO=repo)
    r = subprocess.run([os.path.join(VERIF, 'check'), prop, '--replay', path],
                       capture_output=True, text=True, env=env)
    sig = None
    for line in r.stdout.splitlines():
        if line.startswith('signature: '):
            sig = line[len('signature: '):]
        if line.startswith('KNOWN-FINDING:'):
            sig = line.split()[2]
    return r.returncode, sig, r.stdout


def main():
    orig = None
    if '--orig' in sys.argv:
        orig = sys.argv[sys.argv.index('--orig') + 1]
    known = []
    os.makedirs(os.path.join(VERIF, 'replays', 'regress'), exist_ok=True)
    rows = list(TABLE)
    if os.path.exists(EXTRA):
        for e in json.load(open(EXTRA)):
            rows.append((e['name'], e['property'], e['part'], e['status'],
                         e.get('commit'), e['signature'], e['what'], e['case']))
    ok = True
    # first write known_findings.json (the replay command consults it)
    for name, prop, part, status, commit, sig, what, case in rows:
        fname = '%s-%s.json' % (prop, name)
        known.append({'property': prop, 'signature': sig, 'status': status,
                      'commit': commit, 'what': what,
                      'replay': 'replays/regress/' + fname})
    seen = set()
    uniq = []
    for k in known:
        key = (k['property'], k['signature'], k['status'])
        if key not in seen:
            seen.add(key)
            uniq.append(k)
    with open(os.path.join(VERIF, 'known_findings.json'), 'w') as f:
        json.dump(uniq, f, indent=1)
    for name, prop, part, status, commit, sig, what, case in rows:
        if case is None:
            continue
        fname = '%s-%s.json' % (prop, name)
        path = os.path.join(VERIF, 'replays', 'regress', fname)
        body = {'property': prop, 'part': part, 'signature': sig, 'case': case,
                'expect': 'known' if status == 'open' else 'holds',
                'detail': what}
        with open(path, 'w') as f:
            json.dump(body, f, indent=1, sort_keys=True)
        rc, got, out = run_replay(path, prop, '/repo')
        if status == 'open':
            good = rc == 0 and got == sig and 'KNOWN-FINDING' in out
        else:
            good = rc == 0 and 'replay holds' in out
            if good and orig:
                rc2, got2, out2 = run_replay(path, prop, orig)
                # the pinned tree fails the replay; an earlier defect of that
                # tree may get in first (then the signature differs: shown)
                good = rc2 == 1
                if not good or got2 != sig:
                    print('   on orig: rc=%s sig=%s' % (rc2, got2))
        print('%-8s %-38s %-6s %s' % ('ok' if good else 'BAD', name, status, got))
        ok = ok and good
    return 0 if ok else 1


if __name__ == '__main__':
    sys.exit(main())
