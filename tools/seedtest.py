#!/venv/bin/python
"""tools/seedtest.py <seeded-dir> [--checks C01,C04] [--tier quick] [--no-tests]

<seeded-dir> holds patch.diff and demo.py (and meta.json with "property").
Confirms, on a scratch copy of /repo (removed afterwards):
  1. demo.py exits 0 on the unchanged tree and 1 with the patch,
  2. the repository's tests still pass with the patch,
  3. which of our checks report a VIOLATION with the patch.
Prints a JSON summary (also usable to fill meta.json)."""
import argparse
import json
import os
import re
import shutil
import subprocess
import sys
import tempfile
import time

VERIF = os.path.dirname(os.path.dirname(os.path.abspath(__file__)))


def run(cmd, env=None, cwd=None, timeout=900):
    t0 = time.time()
    try:
        p = subprocess.run([os.path.join(VERIF, 'tools', 'iso.py'), str(timeout)]
                           + cmd, env=env, cwd=cwd, capture_output=True, text=True)
        out = p.stdout + p.stderr
    except Exception as exc:
        out = 'ERR %r' % exc
    m = re.search(r'\[iso rc=(\S+)\]', out)
    rc = m.group(1) if m else '?'
    return rc, out, time.time() - t0


def main():
    ap = argparse.ArgumentParser()
    ap.add_argument('dir')
    ap.add_argument('--checks')
    ap.add_argument('--tier', default='quick')
    ap.add_argument('--no-tests', action='store_true')
    ap.add_argument('--seed', default='1')
    a = ap.parse_args()
    d = os.path.abspath(a.dir)
    meta = {}
    if os.path.exists(os.path.join(d, 'meta.json')):
        meta = json.load(open(os.path.join(d, 'meta.json')))
    checks = (a.checks or meta.get('property', '')).split(',')
    tmp = tempfile.mkdtemp(prefix='seedtest-')
    res = {}
    try:
        dst = os.path.join(tmp, 'repo')
        subprocess.check_call(['rsync', '-a', '--exclude', '.git', '--exclude',
                               '__pycache__', '/repo/', dst + '/'])
        p = subprocess.run(['patch', '-p1', '-s', '-d', dst, '-i',
                            os.path.join(d, 'patch.diff')],
                           capture_output=True, text=True)
        if p.returncode:
            print('PATCH FAILED', p.stdout, p.stderr)
            return 2
        demo = os.path.join(d, 'demo.py')
        env = dict(os.environ, PYTHONPATH='/repo')
        rc0, out0, t = run(['/venv/bin/python', demo], env=env, cwd='/repo',
                           timeout=180)
        res['demo_clean'] = rc0
        env = dict(os.environ, PYTHONPATH=dst)
        rc1, out1, t = run(['/venv/bin/python', demo], env=env, cwd=dst, timeout=180)
        res['demo_patched'] = rc1
        res['demo_patched_tail'] = out1[-400:]
        if not a.no_tests:
            rc, out, t = run(['/venv/bin/python', '-m', 'pytest', '-q', '-p',
                              'no:cacheprovider', '--timeout=300', 't/unit'],
                             env=env, cwd=dst, timeout=900)
            m = re.findall(r'(\d+ (?:passed|failed)[^\n]*)', out)
            res['tests_patched'] = m[-1] if m else out[-300:]
            res['tests_failed'] = re.findall(r'FAILED (\S+)', out)
        for c in [c for c in checks if c]:
            env = dict(os.environ, VERIF_REPO=dst, VERIF_SEED=a.seed,
                       VERIF_REPLAY_DIR=os.path.join(tmp, 'replays'))
            rc, out, t = run([os.path.join(VERIF, 'check'), c, '--tier', a.tier,
                              '--no-evidence'], env=env, cwd=VERIF, timeout=3600)
            sigs = sorted(set(re.findall(r'^signature: (.*)$', out, re.M)))
            res['check_' + c] = {'rc': rc, 'signatures': sigs,
                                 'wall_s': round(t, 1)}
    finally:
        shutil.rmtree(tmp, ignore_errors=True)
        for f in os.listdir(os.path.join(VERIF, 'replays')):
            pass
    print(json.dumps(res, indent=1))
    return 0


if __name__ == '__main__':
    sys.exit(main())
