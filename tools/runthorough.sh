#!/bin/bash
# tools/runthorough.sh [ids...] : thorough tier of each check, serially; the evidence
# of each run is kept as evidence/thorough/<id>.json and the quick evidence restored
cd "$(dirname "$0")/.."
mkdir -p evidence/thorough
ids=${@:-$(/venv/bin/python -c "import json;print(' '.join(x['property_id'] for x in json.load(open('MANIFEST.json'))['checks']))")}
for c in $ids; do
  cp evidence/$c.json /tmp/quick-evidence-$c.json 2>/dev/null
  t0=$(date +%s)
  out=$(./check $c --tier thorough 2>&1); rc=$?
  t1=$(date +%s)
  cp evidence/$c.json evidence/thorough/$c.json 2>/dev/null
  cp /tmp/quick-evidence-$c.json evidence/$c.json 2>/dev/null
  echo "$c rc=$rc $((t1-t0))s $(echo "$out" | grep -E '^(VIOLATION|HARNESS|part )' | tr '\n' ';' | cut -c1-600)"
done
