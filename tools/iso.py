#!/venv/bin/python
"""tools/iso.py <seconds> <cmd...>: run cmd in its own session, print its output,
then kill the whole process group (no leftovers, no pipes held open)."""
import os, signal, subprocess, sys, tempfile
t = float(sys.argv[1])
with tempfile.TemporaryFile('w+') as out:
    p = subprocess.Popen(sys.argv[2:], stdout=out, stderr=subprocess.STDOUT,
                         start_new_session=True)
    try:
        rc = p.wait(timeout=t)
    except subprocess.TimeoutExpired:
        rc = 'timeout'
    try:
        os.killpg(p.pid, signal.SIGKILL)
    except OSError:
        pass
    out.seek(0)
    sys.stdout.write(out.read())
print('[iso rc=%s]' % rc)
