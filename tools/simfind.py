#!/venv/bin/python
"""find + shrink one case per signature with known-finding zones enabled
usage: SIM_ALLOW=zone1,zone2 tools/simfind.py <module> <part> <n> <signature-substring>"""
import sys, os, json
sys.path[:0] = ['/verif', os.environ.get('VERIF_REPO', '/repo')]
import importlib, hypothesis
from hypothesis import given, settings, HealthCheck, Phase
from vlib.core import ddmin
mod = importlib.import_module('props.' + sys.argv[1])
strategy, execute = mod.EXPLORE[sys.argv[2]]
n = int(sys.argv[3]); want = sys.argv[4]
found = {}
@hypothesis.seed(int(os.environ.get('SEED', '1')))
@settings(max_examples=n, database=None, deadline=None, phases=[Phase.generate],
          suppress_health_check=list(HealthCheck))
@given(strategy)
def t(case):
    if len(found) >= 1: return
    out = execute(case)
    if out.violated and want in out.signature:
        found[out.signature] = case
t()
for sig, case in found.items():
    small, calls = ddmin(case, lambda c: (lambda o: o.violated and o.signature == sig)(execute(c)), 400)
    small['config']['allow'] = [z for z in os.environ.get('SIM_ALLOW', '').split(',') if z]
    out = execute(small)
    print(json.dumps({'signature': sig, 'case': small, 'detail': out.detail}))
