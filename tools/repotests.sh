#!/bin/bash
# runs the repository's pinned test command; prints the summary line
cd /repo && /venv/bin/python -m pytest -ra -q -p no:cacheprovider --timeout=900 --continue-on-collection-errors "$@" 2>&1 | tail -5
