#!/bin/bash
# runs the repository's pinned test command in its own session (leftover worker
# processes of the tests cannot hold our pipes open); prints the summary lines
cd /repo && /verif/tools/iso.py ${1:-900} /venv/bin/python -m pytest -ra -q -p no:cacheprovider --timeout=900 --continue-on-collection-errors -o faulthandler_timeout=300 2>&1 | grep -E "^(FAILED|ERROR)|passed|failed|Timeout|iso rc" | tail -8
