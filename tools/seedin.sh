#!/bin/bash
# tools/seedin.sh CNN [checks] : take /tmp/seed/CNN/seed_out into seeded/S-CNN and confirm it
id=$1; cd "$(dirname "$0")/.."
mkdir -p seeded/S-$id && cp /tmp/seed/$id/seed_out/patch.diff /tmp/seed/$id/seed_out/demo.py /tmp/seed/$id/seed_out/notes.md seeded/S-$id/ && echo "{\"property\": \"$id\"}" > seeded/S-$id/meta.json
tools/seedtest.py seeded/S-$id ${2:+--checks $2} > /tmp/seedres-$id.json 2>&1
