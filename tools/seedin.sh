#!/bin/bash
# tools/seedin.sh CNN [name] [checks] : take /tmp/seed/CNN/seed_out into seeded/<name> and confirm it
id=$1; name=${2:-S-$id}; cd "$(dirname "$0")/.."
mkdir -p seeded/$name && cp /tmp/seed/$id/seed_out/patch.diff /tmp/seed/$id/seed_out/demo.py /tmp/seed/$id/seed_out/notes.md seeded/$name/ && echo "{\"property\": \"$id\"}" > seeded/$name/meta.json
tools/seedtest.py seeded/$name ${3:+--checks $3} > /tmp/seedres-$name.json 2>&1
