#!/bin/bash
# tools/seedall.sh [jobs] : re-run tools/seedtest.py --no-tests for every seeded change
# against the current checks; one line per seed in /tmp/seedall/<name>.json
cd "$(dirname "$0")/.."
mkdir -p /tmp/seedall
ls -d seeded/*/ | xargs -P ${1:-3} -I{} sh -c 'n=$(basename {}); tools/seedtest.py seeded/$n --no-tests > /tmp/seedall/$n.json 2>&1'
/venv/bin/python - <<'P'
import json, glob, os
for f in sorted(glob.glob('/tmp/seedall/*.json')):
    t = open(f).read()
    n = os.path.basename(f)[:-5]
    try:
        d = json.loads(t[t.index('{'):])
    except Exception:
        print(n, 'RAW', t[-200:].replace('\n', ' ')); continue
    chk = {k: (v['rc'], v['signatures'][:2]) for k, v in d.items() if k.startswith('check_')}
    caught = all(v[0] == '1' for v in chk.values())
    print('%-8s demo %s/%s %s %s' % (n, d.get('demo_clean'), d.get('demo_patched'), 'CAUGHT' if caught else 'MISSED', chk))
P
