#!/venv/bin/python
"""Sensitivity suite: apply each mutants/<ID>-<name>.patch to a scratch copy of
/repo, run ./check <ID> against the copy (VERIF_REPO), expect exit 1.

usage: tools/mutants.py [ID-or-glob ...] [--tier quick] [--jobs 4]
Scratch copies live under a mkdtemp dir and are removed afterwards.
"""
import argparse, glob, os, re, shutil, subprocess, sys, tempfile, time
from concurrent.futures import ThreadPoolExecutor

VERIF = os.path.dirname(os.path.dirname(os.path.abspath(__file__)))


def run_one(patch, tier, seed):
    name = os.path.basename(patch)[:-6]
    prop = name.split('-')[0]
    tmp = tempfile.mkdtemp(prefix='mut-%s-' % name)
    try:
        dst = os.path.join(tmp, 'repo')
        subprocess.check_call(['rsync', '-a', '--exclude', '.git', '--exclude',
                               '__pycache__', '/repo/', dst + '/'])
        r = subprocess.run(['patch', '-p1', '-s', '-d', dst, '-i', patch],
                           capture_output=True, text=True)
        if r.returncode:
            return name, 'PATCH-FAILED', r.stdout + r.stderr, 0
        env = dict(os.environ, VERIF_REPO=dst, VERIF_SEED=str(seed),
                   VERIF_REPLAY_DIR=os.path.join(tmp, 'replays'))
        t0 = time.time()
        r = subprocess.run([os.path.join(VERIF, 'check'), prop, '--tier', tier,
                            '--no-evidence'], capture_output=True, text=True,
                           env=env, cwd=VERIF)
        dt = time.time() - t0
        sigs = re.findall(r'^signature: (.*)$', r.stdout, re.M)
        if r.returncode == 1 and 'VIOLATION' in r.stdout:
            return name, 'KILLED', ';'.join(sorted(set(sigs))), dt
        if r.returncode == 0:
            return name, 'SURVIVED', '', dt
        return name, 'ERROR rc=%d' % r.returncode, (r.stdout + r.stderr)[-1500:], dt
    finally:
        shutil.rmtree(tmp, ignore_errors=True)


def main():
    ap = argparse.ArgumentParser()
    ap.add_argument('which', nargs='*')
    ap.add_argument('--tier', default='quick')
    ap.add_argument('--seed', type=int, default=1)
    ap.add_argument('--jobs', type=int, default=3)
    a = ap.parse_args()
    pats = a.which or ['*']
    files = []
    for p in pats:
        files += glob.glob(os.path.join(VERIF, 'mutants', p + '*.patch'))
    files = sorted(set(files))
    # replays written while killing mutants are not wanted
    before = set(glob.glob(os.path.join(VERIF, 'replays', '*.json')))
    with ThreadPoolExecutor(a.jobs) as ex:
        res = list(ex.map(lambda f: run_one(f, a.tier, a.seed), files))
    props = set(os.path.basename(f).split('-')[0] for f in files)
    for f in set(glob.glob(os.path.join(VERIF, 'replays', '*.json'))) - before:
        if os.path.basename(f).split('-')[0] in props:
            os.unlink(f)
    bad = 0
    for name, verdict, info, dt in res:
        print('%-40s %-12s %5.1fs %s' % (name, verdict, dt, info[:300]))
        bad += verdict != 'KILLED'
    print('%d/%d killed' % (len(res) - bad, len(res)))
    return 1 if bad else 0


if __name__ == '__main__':
    sys.exit(main())
