#!/venv/bin/python
"""tools/mkmut.py NAME FILE OLD NEW  -- write mutants/NAME.patch replacing the
unique occurrence of OLD by NEW in /repo/FILE (the repo is not modified)."""
import difflib, sys, os
name, rel, old, new = sys.argv[1:5]
src = open(os.path.join('/repo', rel)).read()
assert src.count(old) == 1, 'OLD occurs %d times' % src.count(old)
dst = src.replace(old, new)
diff = ''.join(difflib.unified_diff(src.splitlines(True), dst.splitlines(True),
                                    'a/' + rel, 'b/' + rel))
out = os.path.join(os.path.dirname(os.path.dirname(os.path.abspath(__file__))),
                   'mutants', name + '.patch')
open(out, 'w').write(diff)
print(out)
