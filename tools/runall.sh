#!/bin/bash
# tools/runall.sh [tier] [seed] : every registered check, serially; one line each
tier=${1:-quick}; seed=${2:-1}
cd "$(dirname "$0")/.."
for c in $(/venv/bin/python -c "import json;print(' '.join(x['property_id'] for x in json.load(open('MANIFEST.json'))['checks']))"); do
  t0=$(date +%s.%N)
  out=$(VERIF_SEED=$seed ./check $c --tier $tier 2>&1); rc=$?
  t1=$(date +%s.%N)
  printf "%s rc=%d %.1fs %s\n" $c $rc $(echo "$t1 - $t0" | bc) "$(echo "$out" | grep -E '^(VIOLATION|HARNESS)' | head -2 | tr '\n' ' ')"
done
